#!/usr/bin/env python3
"""Validates MANIFEST.json and every evidence file against the schemas (uses the tooling venv's jsonschema)."""
import json, glob, sys
import jsonschema
ok = True
def v(path, schema):
    global ok
    try:
        jsonschema.validate(json.load(open(path)), json.load(open(schema)))
        print("ok  ", path)
    except Exception as e:
        ok = False
        print("FAIL", path, str(e).splitlines()[0])
v('/verif/MANIFEST.json', '/root/.vp/MANIFEST.schema.json')
for f in sorted(glob.glob('/verif/evidence/C*.json')):
    v(f, '/root/.vp/EVIDENCE.schema.json')
sys.exit(0 if ok else 1)
