#!/usr/bin/env python3
"""Regenerates /verif/MANIFEST.json from lib/props.py (single source of truth for per-check metadata)."""
import json, os, sys

HERE = os.path.dirname(os.path.abspath(__file__))
VERIF = os.path.dirname(HERE)
sys.path.insert(0, HERE)
import props as P  # noqa: E402

all_ids = [json.loads(l)["id"] for l in open(os.path.join(VERIF, "properties.jsonl"))]

checks = []
for pid in all_ids:
    m = P.PROPS.get(pid)
    if not m or m.get("disabled"):
        continue
    checks.append({
        "property_id": pid,
        "quick_cmd": "./check %s quick" % pid,
        "thorough_cmd": "./check %s thorough" % pid,
        "evidence_file": "/verif/evidence/%s.json" % pid,
        "replay_cmd_template": "./check %s quick --replay {path}" % pid,
        "engine": m.get("engine", "chalk-verif"),
        "level_claimed": {
            "category": m["level"],
            "text": m.get("level_text", "Runtime monitoring: the property held on every execution the run produced (counts and samples in the evidence file); "
                                  "not a proof. " + m["rule"][:400]),
            "design_ref": m.get("design_ref", "DESIGN.md §3 " + pid),
        },
        "level_note": m.get("level_note", "Trusted: the harness's oracle for this property (reference model / algebraic law / other solver), the seeded generators' "
                                  "coverage, rustc. Bounded universes and sizes (DESIGN.md §9)."),
        "technique": m.get("technique", "runtime monitoring: generated workload + executable oracle"),
    })

na = []
for pid in all_ids:
    m = P.PROPS.get(pid)
    if not m or m.get("disabled"):
        na.append({"property_id": pid, "reason": (m or {}).get("disabled", "check not built yet in this session (runtime monitoring applies; see DESIGN.md §3)")})

manifest = {
    "version": 1,
    "setup_cmd": "./setup.sh",
    "hooks": {
        "guard": "chalk_verif",
        "enable": "RUSTFLAGS=\"--cfg chalk_verif\" (set for the harness in /verif/harness/.cargo/config.toml and /verif/memsafe/.cargo/config.toml; the "
                  "harness crates depend on /repo/chalk-* by path, so every check rebuilds /repo's working tree with the hooks on)",
        "baseline_off_cmd": "cd /repo && cargo nextest run --workspace --no-fail-fast --offline --test-threads 8 || cargo test --workspace --no-fail-fast --offline",
        "source_commits": P.HOOK_COMMITS,
        "add_only": True,
    },
    "engines": [
        {"name": "chalk-verif", "path": "/verif/harness", "serves_properties": [c["property_id"] for c in checks if c["engine"] == "chalk-verif"],
         "kind_free_text": "Rust worker (monitors + oracles + generators, links /repo's crates with cfg chalk_verif) supervised by lib/supervisor.py "
                           "(sharded subprocesses, per-case journal, watchdog, known-finding matching, evidence)"},
        {"name": "memsafe", "path": "/verif/memsafe", "serves_properties": [c["property_id"] for c in checks if c["engine"] == "memsafe"],
         "kind_free_text": "fault-enumeration matrix for the in-place fold helpers run natively with drop accounting, under Miri, under ASan and under valgrind memcheck"},
    ],
    "checks": checks,
    "notes": "All checks: exit 0 = held on everything observed, 1 = VIOLATION line + replay file, 2 = INCONCLUSIVE (too little observed / infrastructure). "
             "Known findings: /verif/known_findings.json (never written at run time). VERIF_SEED selects the PRNG seed.",
    "not_applicable": na,
}
json.dump(manifest, open(os.path.join(VERIF, "MANIFEST.json"), "w"), indent=1)
print("MANIFEST.json: %d checks, %d not claimed" % (len(checks), len(na)))
