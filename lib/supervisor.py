"""Supervisor: builds the harness from /repo's working tree, runs sharded worker processes with a per-case journal and
watchdog, aggregates what the monitors observed, matches known findings, writes evidence and replay files."""
import collections, hashlib, json, os, queue, signal, subprocess, sys, threading, time

VERIF = os.path.dirname(os.path.dirname(os.path.abspath(__file__)))
HARNESS = os.path.join(VERIF, "harness")
BIN = os.path.join(HARNESS, "target", "release", "chalk-verif")
EVID = os.path.join(VERIF, "evidence")
REPLAY = os.path.join(EVID, "replay")

import props as PROPS  # noqa: E402


def log(*a):
    print(*a, flush=True)


def cargo_env():
    env = dict(os.environ)
    env["CARGO_NET_OFFLINE"] = "true"
    env.pop("RUSTFLAGS", None)  # the harness's .cargo/config.toml sets --cfg chalk_verif
    return env


def build():
    """Rebuild the harness (and through path dependencies exactly what changed in /repo's working tree)."""
    t0 = time.time()
    r = subprocess.run(["cargo", "build", "--release", "--offline"], cwd=HARNESS, env=cargo_env(), stdout=subprocess.PIPE, stderr=subprocess.STDOUT, text=True)
    if r.returncode != 0:
        tail = "\n".join(r.stdout.splitlines()[-40:])
        log(tail)
        return False, time.time() - t0
    return True, time.time() - t0


def load_known():
    p = os.path.join(VERIF, "known_findings.json")
    if not os.path.exists(p):
        return []
    return json.load(open(p))["findings"]


class Worker:
    def __init__(self, prop, tier, seed, shard, nshards, start=0, only=None):
        self.prop, self.tier, self.seed, self.shard, self.nshards = prop, tier, seed, shard, nshards
        self.start, self.only = start, only
        args = [BIN, "worker", prop, "--tier", tier, "--seed", str(seed), "--shard", str(shard), "--nshards", str(nshards), "--start", str(start)]
        if only is not None:
            args += ["--only", str(only)]
        env = dict(os.environ)
        env["RUST_BACKTRACE"] = "0"
        self.p = subprocess.Popen(args, stdout=subprocess.PIPE, stderr=subprocess.DEVNULL, text=True, bufsize=1, env=env, cwd=VERIF)
        self.q = queue.Queue()
        self.t = threading.Thread(target=self._pump, daemon=True)
        self.t.start()

    def _pump(self):
        try:
            for line in self.p.stdout:
                self.q.put(line.rstrip("\n"))
        finally:
            self.q.put(None)

    def kill(self):
        try:
            self.p.kill()
        except Exception:
            pass
        self.p.wait()


class Agg:
    def __init__(self):
        self.evals = 0
        self.nt = set()
        self.hist = collections.Counter()
        self.inc = collections.Counter()
        self.maxes = {}
        self.viol = []  # (k, violation dict)
        self.samples = []
        self.cases_done = 0
        self.ncases = None
        self.events = []  # deaths / timeouts

    def add_case(self, k, d):
        self.cases_done += 1
        self.evals += d.get("evals", 0)
        self.nt.update(d.get("nt", []))
        for a, b in d.get("hist", {}).items():
            self.hist[a] += b
        for a, b in d.get("inc", {}).items():
            self.inc[a] += b
        for a, b in d.get("max", {}).items():
            self.maxes[a] = max(self.maxes.get(a, 0), b)
        for v in d.get("viol", []):
            self.viol.append((k, v))
        if "sample" in d and len(self.samples) < 6:
            self.samples.append(d["sample"])


def run_shard(prop, tier, seed, shard, nshards, agg, lock, case_timeout, deadline):
    """Run one shard to completion, restarting the worker after a dead or hung case."""
    start = 0
    while True:
        w = Worker(prop, tier, seed, shard, nshards, start=start)
        cur = None  # case in progress
        flags = {}  # solve id -> (solver, flag)
        t_case = time.time()
        finished = False
        while True:
            timeout = max(0.1, case_timeout - (time.time() - t_case)) if cur is not None else case_timeout
            try:
                line = w.q.get(timeout=timeout)
            except queue.Empty:
                line = "TIMEOUT"
            if time.time() > deadline and line not in (None,):
                w.kill()
                with lock:
                    agg.inc["run-deadline-reached(shard stopped early)"] += 1
                return
            if line is None:
                rc = w.p.wait()
                if cur is None:
                    finished = True
                else:
                    with lock:
                        agg.events.append({"k": cur, "kind": "death", "rc": rc, "flags": sorted(set(flags.values()))})
                    start = cur + nshards
                break
            if line == "TIMEOUT":
                w.kill()
                with lock:
                    agg.events.append({"k": cur, "kind": "timeout", "rc": None, "flags": sorted(set(flags.values()))})
                start = (cur if cur is not None else start) + nshards
                break
            tag, _, rest = line.partition(" ")
            if tag == "N":
                with lock:
                    agg.ncases = int(rest)
            elif tag == "B":
                cur = int(rest)
                flags = {}
                t_case = time.time()
            elif tag == "F":
                parts = rest.split(" ")
                flags[parts[3] if len(parts) > 3 else "?"] = (parts[1], parts[2])
            elif tag == "D":
                parts = rest.split(" ")
                flags.pop(parts[1], None)
            elif tag == "E":
                k, _, js = rest.partition(" ")
                try:
                    d = json.loads(js)
                except Exception:
                    d = {"inc": {"harness: unparsable journal line": 1}}
                with lock:
                    agg.add_case(int(k), d)
                cur = None
        if finished:
            return
        if agg.ncases is not None and start >= agg.ncases:
            return


def rerun_alone(prop, tier, seed, k, limit):
    """Re-run one case alone. Returns ('ok', casejson) | ('death', flags) | ('timeout', flags)."""
    w = Worker(prop, tier, seed, 0, 1, only=k)
    t0 = time.time()
    flags = {}
    res = None
    while True:
        try:
            line = w.q.get(timeout=max(0.1, limit - (time.time() - t0)))
        except queue.Empty:
            w.kill()
            return "timeout", sorted(set(flags.values())), None
        if line is None:
            w.p.wait()
            break
        tag, _, rest = line.partition(" ")
        if tag == "F":
            parts = rest.split(" ")
            flags[parts[3] if len(parts) > 3 else "?"] = (parts[1], parts[2])
        elif tag == "D":
            flags.pop(rest.split(" ")[1], None)
        elif tag == "E":
            _, _, js = rest.partition(" ")
            res = json.loads(js)
    if res is None:
        return "death", sorted(set(flags.values())), None
    return "ok", [], res


def death_signature(flags):
    """Root-cause signature of a worker death / hang, from the FaultDb flags journalled by the dying solve."""
    fl = set(tuple(f) for f in flags)
    if ("recursive", "nonground-coinductive") in fl:
        return "recursive:coinductive-nonground:divergence"
    if ("slg", "nonground-coinductive") in fl:
        return "slg:coinductive-nonground:blowup"
    return None


def write_replay(prop, tier, seed, k, what, detail, sig=None):
    os.makedirs(REPLAY, exist_ok=True)
    body = {"property": prop, "tier": tier, "seed": seed, "case": k, "what": what, "signature": sig, "detail": detail,
            "replay_cmd": "./check %s %s --replay <this file>" % (prop, tier)}
    h = hashlib.sha1(json.dumps(body, sort_keys=True).encode()).hexdigest()[:12]
    path = os.path.join(REPLAY, "%s-%s.json" % (prop, h))
    with open(path, "w") as f:
        json.dump(body, f, indent=1)
    return path


def write_evidence(prop, tier, seed, meta, agg, wall, nviol, known_seen, extra_cov=None, status="held-on-observed"):
    os.makedirs(EVID, exist_ok=True)
    cov = {
        "evaluations": int(agg.evals),
        "distinct_nontrivial": len(agg.nt),
        "rule": meta["rule"],
        "samples": agg.samples[:6] if agg.samples else [{"note": "no sample recorded"}],
        "cases_run": agg.cases_done,
        "cases_total": agg.ncases,
        "observed": dict(sorted(agg.hist.items())),
        "inconclusive": dict(sorted(agg.inc.items())),
        "gauges": agg.maxes,
        "worker_deaths_or_hangs": agg.events[:20],
        "known_findings_seen": known_seen,
        "verdict": status,
    }
    if meta.get("exhaustive") is not None:
        cov["exhaustive"] = bool(meta["exhaustive"])
    if extra_cov:
        cov.update(extra_cov)
    ev = {
        "property_id": prop,
        "tier": tier,
        "seed": int(seed),
        "level": meta["level"],
        "coverage": cov,
        "assumptions": meta.get("assumptions", []),
        "wall_s": round(wall, 2),
        "violations": int(nviol),
    }
    with open(os.path.join(EVID, "%s.json" % prop), "w") as f:
        json.dump(ev, f, indent=1)


def judge_and_report(prop, tier, seed, meta, agg, t0, extra_cov=None, extra_violations=None):
    """Common tail: known-finding matching, thresholds, evidence, exit code."""
    known = [f for f in load_known() if f.get("status") == "known" and prop in f.get("properties", [f.get("property")])]
    known_sigs = {f["signature"]: f for f in known}
    known_seen = collections.Counter()
    new_viol = []
    for k, v in agg.viol:
        sig = v.get("sig")
        if sig and sig in known_sigs:
            known_seen[sig] += 1
        else:
            new_viol.append((k, v))
    for v in (extra_violations or []):
        sig = v.get("sig")
        if sig and sig in known_sigs:
            known_seen[sig] += 1
        else:
            new_viol.append((v.get("k", -1), v))
    for sig, n in sorted(known_seen.items()):
        log("KNOWN-FINDING: property=%s %s %s (seen %d times in this run)" % (prop, sig, known_sigs[sig]["description"], n))
    status = "held-on-observed"
    rc = 0
    if new_viol:
        status = "violated"
        rc = 1
        shown = set()
        for k, v in new_viol[:5]:
            path = write_replay(prop, tier, seed, k, v.get("what"), v.get("detail"), v.get("sig"))
            if path in shown:
                continue
            shown.add(path)
            log("  what: %s" % v.get("what"))
            log("VIOLATION property=%s replay=%s" % (prop, path))
    else:
        # too little observed => inconclusive
        reasons = []
        if agg.evals < meta.get("min_evals", 1):
            reasons.append("only %d evaluations (< %d)" % (agg.evals, meta.get("min_evals", 1)))
        if len(agg.nt) < meta.get("min_nontrivial", 2):
            reasons.append("only %d distinct non-trivial observations (< %d)" % (len(agg.nt), meta.get("min_nontrivial", 2)))
        for key in meta.get("require_observed", []):
            if not any(h.startswith(key) and n > 0 for h, n in agg.hist.items()):
                reasons.append("monitor never observed '%s'" % key)
        if agg.ncases and agg.cases_done < 0.8 * agg.ncases:
            reasons.append("only %d of %d cases completed" % (agg.cases_done, agg.ncases))
        if reasons:
            status = "inconclusive"
            rc = 2
            log("INCONCLUSIVE property=%s %s" % (prop, "; ".join(reasons)))
    wall = time.time() - t0
    write_evidence(prop, tier, seed, meta, agg, wall, len(new_viol), dict(known_seen), extra_cov, status)
    log("%s %s seed=%s: %s — %d evaluations, %d distinct non-trivial, %d cases, %d inconclusive events, %.1fs"
        % (prop, tier, seed, status, agg.evals, len(agg.nt), agg.cases_done, sum(agg.inc.values()), wall))
    return rc


def run_generic(prop, tier, seed, meta, t0):
    nshards = meta.get("shards", {}).get(tier, 8 if tier == "quick" else 16)
    case_timeout = meta.get("case_timeout", 40)
    deadline = time.time() + meta.get("deadline", {}).get(tier, 900 if tier == "quick" else 3600)
    agg = Agg()
    lock = threading.Lock()
    threads = [threading.Thread(target=run_shard, args=(prop, tier, seed, i, nshards, agg, lock, case_timeout, deadline)) for i in range(nshards)]
    for t in threads:
        t.start()
    for t in threads:
        t.join()
    # dead / hung cases: re-run alone with a generous limit; only reproducible ones count
    extra_viol = []
    for ev in agg.events:
        if ev["k"] is None:
            agg.inc["worker died outside a case"] += 1
            continue
        kind, flags, res = rerun_alone(prop, tier, seed, ev["k"], meta.get("alone_timeout", 40))
        if kind == "ok":
            agg.inc["worker %s not reproduced when re-run alone" % ev["kind"]] += 1
            agg.add_case(ev["k"], res)
            continue
        sig = death_signature(flags or ev["flags"])
        what = "case %d: worker %s (reproduced when re-run alone: %s); flags=%s" % (ev["k"], ev["kind"], kind, flags or ev["flags"])
        if meta.get("deaths_are_violations"):
            extra_viol.append({"k": ev["k"], "sig": sig, "what": what, "detail": {"event": ev, "rerun": kind}})
        else:
            agg.inc["worker %s during a case (termination is C09's subject)" % kind] += 1
    return judge_and_report(prop, tier, seed, meta, agg, t0, extra_violations=extra_viol)


def replay(prop, tier, path, meta):
    body = json.load(open(path))
    seed, k = body["seed"], body["case"]
    tier = body.get("tier", tier)
    ok, _ = build()
    if not ok:
        log("INCONCLUSIVE property=%s harness build failed" % prop)
        return 2
    if k is None or k < 0:
        log("replay file has no case index; re-run the check with VERIF_SEED=%s" % seed)
        return 2
    kind, flags, res = rerun_alone(prop, tier, seed, k, 600)
    log("replay %s case %d seed %s: %s" % (prop, k, seed, kind))
    if kind != "ok":
        log("  worker %s, flags=%s" % (kind, flags))
        log("VIOLATION property=%s replay=%s" % (prop, path))
        return 1
    for v in res.get("viol", []):
        log("  sig=%s what=%s" % (v.get("sig"), v.get("what")))
        log(json.dumps(v.get("detail"), indent=1))
    if res.get("viol"):
        log("VIOLATION property=%s replay=%s" % (prop, path))
        return 1
    log("no violation reproduced")
    return 0


def main(argv):
    if len(argv) < 2:
        print(__doc__ or "usage: check <ID> <quick|thorough> [--replay file]")
        return 64
    prop, tier = argv[0], argv[1]
    if tier not in ("quick", "thorough"):
        print("tier must be quick or thorough")
        return 64
    if os.environ.get("VERIF_TIER") in ("quick", "thorough") and len(argv) == 2 and False:
        tier = os.environ["VERIF_TIER"]
    meta = PROPS.PROPS.get(prop)
    if meta is None:
        print("unknown property", prop)
        return 64
    try:
        seed = int(os.environ.get("VERIF_SEED", "1"))
    except ValueError:
        seed = 1
    if "--replay" in argv:
        return replay(prop, tier, argv[argv.index("--replay") + 1], meta)
    t0 = time.time()
    ok, bt = build()
    if not ok:
        log("INCONCLUSIVE property=%s harness build failed (does /repo compile?)" % prop)
        return 2
    runner = meta.get("runner")
    if runner:
        import special
        return getattr(special, runner)(prop, tier, seed, meta, t0)
    return run_generic(prop, tier, seed, meta, t0)
