"""Per-property metadata used by the supervisor: evidence level, non-triviality rule, thresholds."""

COMMON_ASSUME = [
    "bounded sample, not a proof: held only on the executions listed under coverage",
    "the harness's reference model / oracle (written from the property statement) is itself trusted",
    "chalk is single-threaded library code; no schedules other than callback schedules exist",
]

PROPS = {
    "C01": {
        "level": "exploration",
        "rule": "cases = seeded random programs of the basic/coinductive fragment (2-4 traits, 2-8 impls, where-clauses from header "
                "sub-terms or growing) x 10 goals (forall/exists/if/not/eq/conjunction, biased to impl headers) x {SLG, recursive}; "
                "each answer is judged against the bounded-Herbrand reference model (size<=3, thorough: 4 for a quarter). "
                "Non-trivial = the model reached a definite verdict for a Unique (soundness over all ground instances), None or Definite "
                "(completeness over all true ground solutions) answer; distinct = distinct (program text, goal text, solver, answer).",
        "min_evals": 2000, "min_nontrivial": 500,
        "require_observed": ["nontrivial:unique-subst", "nontrivial:unique-closed", "nontrivial:none", "answer:slg:", "answer:recursive:"],
        "assumptions": COMMON_ASSUME,
    },
}

HOOK_COMMITS = ["d77ca2a", "4f79b4b", "3978b55"]
