"""Per-property metadata used by the supervisor: evidence level, non-triviality rule, thresholds."""

COMMON_ASSUME = [
    "bounded sample, not a proof: held only on the executions listed under coverage",
    "the harness's reference model / oracle (written from the property statement) is itself trusted",
    "chalk is single-threaded library code; no schedules other than callback schedules exist",
]

PROPS = {
    "C01": {
        "level": "exploration",
        "rule": "cases = seeded random programs of the basic/coinductive fragment (2-4 traits, 2-8 impls, where-clauses from header "
                "sub-terms or growing) x 10 goals (forall/exists/if/not/eq/conjunction, biased to impl headers) x {SLG, recursive}; "
                "each answer is judged against the bounded-Herbrand reference model (size<=3, thorough: 4 for a quarter). "
                "Non-trivial = the model reached a definite verdict for a Unique (soundness over all ground instances), None or Definite "
                "(completeness over all true ground solutions) answer; distinct = distinct (program text, goal text, solver, answer).",
        "min_evals": 2000, "min_nontrivial": 500,
        "require_observed": ["nontrivial:unique-subst", "nontrivial:unique-closed", "nontrivial:none", "answer:slg:", "answer:recursive:"],
        "assumptions": COMMON_ASSUME,
    },
    "C02": {
        "level": "exploration",
        "rule": "cases = seeded non-increasing programs (every where-clause argument is a sub-term of the impl header, so the model is exact and "
                "derivations stay inside the goal's sub-terms) x 8 closed goals (forall/if/conjunction/not around concrete predicates) x 4 solver "
                "configurations (SLG max_size 10 and 7, recursive (30,100) and (12,40); reduced limits only when the goal's largest type <= 4 nodes and "
                "the model's derivation touches <= 15 atoms). Refuted by any Ambiguous answer or a Unique/None that contradicts the exact model. "
                "Non-trivial = definite model verdict and definite answer; distinct = (program, goal, configuration, answer).",
        "min_evals": 3000, "min_nontrivial": 1000,
        "require_observed": ["nontrivial:definite-and-correct:none", "nontrivial:definite-and-correct:unique", "answer:slg(max_size=7)", "answer:recursive(max_size=12"],
        "assumptions": COMMON_ASSUME,
    },
    "C03": {
        "level": "exploration",
        "rule": "cases = seeded programs (60% finite-solution non-increasing, 40% with growing where-clauses / the infinite family impl<T> Foo for Vec<T> where T: Foo) x 6 goals "
                "with 1-2 existential variables; history recorded at Solver::solve_multiple's callback: every (answer, more-follows flag) and the return value; "
                "three enumerations per goal: fresh to completion (cap 40), stopped after j answers, resumed on the same solver. Monitors: flag accuracy, duplicates, "
                "soundness of each definite answer (all ground instances in the bounded universe), completeness (every true ground solution is an instance of a yielded answer; "
                "only for complete, non-floundered enumerations on exact programs). Non-trivial = complete enumeration judged for completeness; distinct = (program, goal, kind, sequence).",
        "min_evals": 1500, "min_nontrivial": 300,
        "require_observed": ["judged:complete-enumeration", "judged:definite-answer-sound", "flags-checked", "enumeration:resumed", "enumeration:stopped-early"],
        "assumptions": COMMON_ASSUME,
    },
    "C04": {
        "level": "exploration",
        "rule": "cases = every program{}/goal{} block extracted at run time from /repo/tests/**/*.rs (plus seeded identifier-swap mutations of the goals) and seeded programs of all "
                "fragments (basic, growing, coinductive, auto, hierarchy, associated types, built-in traits); each goal solved by a fresh SLG and a fresh recursive solver. "
                "Refuted by None vs Unique, two Unique with different substitutions (mutual-instance test by unification, lifetimes ignored), or a Unique that is not an instance of "
                "the other's definite guidance. Non-trivial = both answered and the pair is comparable (None/None, Unique/Unique, Unique/Definite); distinct = (program, goal, answers).",
        "min_evals": 2500, "min_nontrivial": 800,
        "require_observed": ["corpus-entries", "agree:unique-same-substitution", "pair:none|none", "generated-fragment:"],
        "assumptions": COMMON_ASSUME + ["the oracle is the other solver: a defect shared by both solvers is invisible here (C01 covers it on its fragment)"],
    },
    "C05": {
        "level": "exploration",
        "rule": "cases = seeded programs with 3-6 (mutually) recursive structs/enums (fields incl. tuples, refs, arrays, scalars, own parameter), 1-2 #[auto] traits, optionally a "
                "#[coinductive] trait whose impls depend only on it, explicit positive/negative impls on constructors; goals = every constructor x every trait + deeper ground types; "
                "each goal on a fresh solver and in 3 sequences (reversed / rotated / shuffled, with repeats) on one solver instance per solver; every answer judged against the "
                "greatest-fixed-point model (history-free). Ambiguous answers are refuted only when the model's whole derivation stays below 9 type nodes. "
                "Non-trivial = definite model verdict; distinct = (program, goal, solver, fresh|warm).",
        "min_evals": 20000, "min_nontrivial": 5000,
        "require_observed": ["nontrivial:fresh:True", "nontrivial:fresh:False", "nontrivial:warm:True", "nontrivial:warm:False", "answer:slg:warm", "answer:recursive:warm"],
        "case_timeout": 25, "alone_timeout": 25,
        "assumptions": COMMON_ASSUME,
    },
    "C06": {
        "level": "exploration",
        "rule": "cases = seeded supertrait hierarchies (3-5 traits, Self bounds and bounds on the trait's own parameter, DAGs/diamonds/cycles), structs with where-clauses, "
                "concrete/blanket impls; 8 pairs of closed goals forall<P,Q>{ if (H) { G } } / forall<P,Q>{ G } (H = T: Tr<..>, Vec<T>: Tr, FromEnv(W<T>)), all 16 posed in random "
                "order with repeats to ONE solver instance per solver; every answer judged against the Horn closure of program + elaborated hypotheses (exact). "
                "Non-trivial = definite verdict; distinct = (program, goal, solver).",
        "min_evals": 8000, "min_nontrivial": 3000,
        "require_observed": ["nontrivial:with-hyp:True", "nontrivial:with-hyp:False", "nontrivial:without-hyp:False", "answer:slg:with-hyp", "answer:recursive:with-hyp"],
        "assumptions": COMMON_ASSUME,
    },
    "C07": {
        "level": "exploration",
        "rule": "cases = seeded coherent programs (each impl of a trait has a distinct self constructor) with 1-2 traits carrying an associated type, values that are concrete, an impl "
                "parameter, Vec<param> or a projection on a bounded parameter; 10 goals: exists<U>{Normalize(<X as Tr>::A -> U)}, closed X: Tr<A = Y>, exists<U>{X: Tr<A = U>}, and "
                "forall/if variants; expected value from an independent normaliser over the generator AST (impl whose header matches and whose where-clauses hold in the model; value "
                "recursively normalised). Non-trivial = oracle decided (value or no impl) and the solver answer was judged; distinct = (program, goal, solver).",
        "min_evals": 4000, "min_nontrivial": 1500,
        "require_observed": ["nontrivial:normalize-to-value", "nontrivial:normalize-no-impl", "nontrivial:eq-closed-wrong-type-rejected", "nontrivial:eq-exists-value"],
        "assumptions": COMMON_ASSUME,
    },
    "C08": {
        "level": "exploration",
        "rule": "cases = seeded programs declaring the lang-item traits Sized/Copy/Clone/Tuple/FnPtr, 2-5 structs/enums with fields over tuples, arrays, slices, str, refs, raw pointers, "
                "fn pointers, scalars, never, dyn; libcore-style and user impls of Copy/Clone; 14 closed goals over types of nesting depth <= 3-4; expected truth from the model with "
                "structural rules written from the property statement. Non-trivial = definite verdict; distinct = (program, goal, solver). The evidence histogram lists (trait, head constructor, verdict) classes seen.",
        "min_evals": 5000, "min_nontrivial": 2000,
        "require_observed": ["nontrivial:sized:@slice:False", "nontrivial:sized:adt:", "nontrivial:copy:@tuple:", "nontrivial:clone:@array:", "nontrivial:tuple_trait:@tuple:True", "nontrivial:fn_ptr_trait:@fn:True"],
        "assumptions": COMMON_ASSUME,
    },
    "C09": {
        "level": "exploration",
        "rule": "bounded-progress restatement: every solve/solve_limited/solve_multiple(<=50 answers) returns within 300000 database callbacks (FaultDb budget, deterministic) and a 40 s guard "
                "(only counted when >= 20000 callbacks were made), without panicking (exempt: the recursive solver's documented 'overflow depth reached') and without killing the worker "
                "process (supervisor: death/hang reproduced alone = violation). Workload = all fragments incl. growing where-clauses, default and reduced limits. "
                "Non-trivial = a solve that made >= 50 callbacks; distinct = (program, goal, configuration, entry point).",
        "min_evals": 8000, "min_nontrivial": 300,
        "require_observed": ["returned:slg:solve:", "returned:recursive:solve:", "returned:slg:solve_multiple:", "returned:slg:solve_limited:", "returned:recursive:solve_limited:"],
        "deaths_are_violations": True, "case_timeout": 150, "alone_timeout": 100,
        "assumptions": COMMON_ASSUME + ["termination is restated as bounded work; the bound (300000 callbacks) is >1000x the largest count seen on the unchanged tree (see gauges)"],
    },
    "C10": {
        "level": "exploration",
        "rule": "cases = seeded programs (basic, coinductive, auto, associated-type fragments) with a pool of 8 goals; per solver: each goal on a fresh solver, then 2 random sequences of "
                "8-16 goals (repeats) on one instance, each answer compared structurally with the fresh one; recursive solver additionally cache-on vs cache-off. "
                "Non-trivial = a warm solve with non-empty history that equals the fresh answer; distinct = (program, goal, solver, history).",
        "min_evals": 10000, "min_nontrivial": 5000,
        "require_observed": ["cache-on==cache-off", "warm==fresh:slg:basic", "warm==fresh:recursive:basic", "warm==fresh:slg:auto", "warm==fresh:recursive:assoc"],
        "assumptions": COMMON_ASSUME,
    },
    "C11": {
        "level": "fault_enumeration",
        "rule": "schedules enumerated per (program, goal, solver): K = should_continue invocations of an uninterrupted solve_limited; for every k <= K (24 sampled when K > 24): "
                "'false only on invocation k' and 'false from invocation k on' (k = 0 is 'always'), plus 'never'. Checked: limited answer == full answer or a weaker Ambig "
                "(definite guidance must generalise the full answer's substitution), no panic; then solve(same goal) and solve(sibling goal) on the same instance == fresh solver. "
                "Non-trivial = a schedule that really interrupted and whose after-state was verified; distinct = (program, goal, solver, schedule).",
        "min_evals": 20000, "min_nontrivial": 5000, "exhaustive": False,
        "require_observed": ["after-interruption==fresh:slg", "after-interruption==fresh:recursive", "limited-compatible:slg:weaker-ambiguous", "limited-compatible:recursive:weaker-ambiguous", "schedule:never"],
        "assumptions": COMMON_ASSUME,
    },
    "C12": {
        "level": "fault_enumeration",
        "rule": "crash points enumerated per (program, goal, solver): a clean run makes N database callbacks (interner() included for a third of the cases); for every n < N (all n when "
                "N <= 150 quick / 400 thorough, else the first ones plus stratified samples) a fresh solver is run with the n-th callback panicking; after catch_unwind the same goal "
                "and two siblings are solved on the same instance and must equal a fresh solver's answers (thorough: a second injected panic during the retry for every 5th point). "
                "Hook H3 records what Drop for SolveState saw. Non-trivial = crash point reached and all retries equal fresh; distinct = (program, goal, solver, n).",
        "min_evals": 15000, "min_nontrivial": 8000, "exhaustive": False,
        "require_observed": ["retry==fresh:slg", "retry==fresh:recursive", "crash:slg:stack-empty-at-unwind", "crash:slg:mid-step:in-flight-strand-requeued", "goals-with-all-crash-points-enumerated"],
        "assumptions": COMMON_ASSUME,
    },
    "C13": {
        "level": "exploration",
        "rule": "cases = seeded non-increasing programs (basic, coinductive, auto, associated-type fragments) x 3 permutations (structs, traits, impls shuffled; where-clauses reversed / "
                "shuffled; enum variants swapped; item kinds interleaved) x 8 goals x both solvers; the displayed solution (names, not ids) must be identical. "
                "Non-trivial = comparison made; distinct = (permuted program, goal, solver, answer).",
        "min_evals": 10000, "min_nontrivial": 5000,
        "require_observed": ["same-answer:slg:basic", "same-answer:recursive:basic", "same-answer:slg:auto", "same-answer:recursive:assoc"],
        "assumptions": COMMON_ASSUME,
    },
    "C28": {
        "level": "exploration",
        "rule": "universal monitor on every returned solution and every enumerated SLG answer: one entry per query unknown, kinds match (incl. integer/float restriction), no inference "
                "variables, bound variables refer to the solution's own binders, binder/placeholder universes < query universes, and applying it to the query neither panics nor leaves "
                "a dangling variable. Workload = all generator fragments + a fixed program with type/lifetime/const unknowns under nested forall (1 case in 5). "
                "Non-trivial = a checked solution that carries a substitution; distinct = (program, goal, solver, answer).",
        "min_evals": 5000, "min_nontrivial": 350,
        "require_observed": ["well-formed:slg:unique", "well-formed:recursive:unique", "well-formed:slg:enumerated-answers", "nontrivial:lifetimes+consts+nested-forall", "well-formed:slg:definite"],
        "assumptions": COMMON_ASSUME,
    },
    "C14": {
        "level": "exploration",
        "rule": "cases = 25 fresh inference tables each: 1-5 unknowns (general/integer/float/const/lifetime) created in universes 0-3, then 1-5 relate() calls in sequence on pairs of "
                "terms of depth <= 3 over ADTs, tuples, slices, refs, raw pointers, arrays with const lengths, scalars, placeholders of universes 1-3 (55% of the pairs are variants of "
                "each other); oracle = independent Robinson unifier with occurs check, kind restriction and universe rule; refuted by success mismatch, a non-outlives obligation, or a "
                "canonical form of all unknowns (kinds + universes of general unknowns) that differs from the oracle's MGU. 25% of lifetime-free pairs are related covariantly. "
                "Non-trivial = a successful relate whose result was compared with the MGU; distinct = the history so far.",
        "min_evals": 100000, "min_nontrivial": 30000,
        "require_observed": ["mgu-agrees:invariant", "mgu-agrees:covariant-lifetime-free", "both-fail"],
        "assumptions": COMMON_ASSUME + ["universes of integer/float unknowns are not compared (chalk does not demote them; they cannot name placeholders)"],
    },
    "C15": {
        "level": "exploration",
        "rule": "same workload as C14; before every relate() the table is fingerprinted (canonical form of all unknowns incl. lifetimes, consts, binder universes; next fresh variable; next "
                "fresh universe) and relate(b,a) is tried on a clone; refuted when a failed relate changes the fingerprint or when relate(a,b) and relate(b,a) disagree on success. "
                "Non-trivial = a failed relate (after >= 0 earlier successes/failures) whose state was compared; distinct = the history so far.",
        "min_evals": 100000, "min_nontrivial": 30000,
        "require_observed": ["failed-relate-left-state-untouched", "order-insensitive:success"],
        "assumptions": COMMON_ASSUME,
    },
    "C16": {
        "level": "exploration",
        "rule": "cases = 10 specs each: 2-7 unknowns of every kind in universes 0-7, 0-2 prior unifications, a value of 1-4 generic args (types of depth <= 3 with refs/arrays, lifetimes, consts, "
                "placeholders of universes 1-7). Checks: first-occurrence numbering; binder kind/universe equals the class info of an independent union-find oracle; permuted creation and "
                "unification order gives the identical form; a non-renaming (kind change, merge, universe change the oracle says is visible) gives a different form; "
                "canonicalize(instantiate(c)) == c; u_canonicalize is order-preserving, dense and undone exactly by map_from_canonical; invert refuses free unknowns and replaces every placeholder. "
                "Non-trivial = a spec that passed through all checks; distinct = the spec.",
        "min_evals": 15000, "min_nontrivial": 10000,
        "require_observed": ["renaming-gives-same-form", "non-renaming-gives-different-form:universe changed", "nontrivial:compression-with-gaps", "instantiate-canonicalize-roundtrip", "invert:placeholders-to-unknowns", "invert:refused-free-unknowns"],
        "assumptions": COMMON_ASSUME,
    },
    "C17": {
        "level": "exploration",
        "rule": "cases = 10 sequences each: a canonical substitution (1-3 entries over ADTs, tuples, slices, refs, raw pointers, arrays with const lengths, scalars, placeholders, own variables "
                "incl. repeated ones) merged with 1-3 further answers (70% structural variants) through hook H2 (merge_into_guidance / may_invalidate / is_trivial); an independent one-way "
                "matcher on a mirror term type checks: every merged answer and the previous guidance are instances of the result; may_invalidate == false only for answers that are instances "
                "of the guidance; is_trivial == identity. Plus all 4x4 pairs of solution kinds through Solution::combine (commutative; Unique only from a Unique; a definite substitution "
                "generalises every candidate's). Every 10th case checks in situ that the aggregated guidance of a real SLG solve generalises every enumerated answer. "
                "Non-trivial = a merge sequence fully checked / an in-situ goal with >= 2 answers; distinct = the history.",
        "min_evals": 30000, "min_nontrivial": 8000,
        "require_observed": ["merged-answers-are-instances", "may-invalidate=false:answer-is-instance", "may-invalidate=true", "combine:uniquexdefinite", "combine:unknownxsuggested", "in-situ:answer-is-instance-of-aggregated-guidance", "is_trivial:true"],
        "assumptions": COMMON_ASSUME,
    },
    "C18": {
        "level": "exploration",
        "rule": "cases = 20 pairs each of a term of every TyKind (depth <= 3, wildcards = bound variables of kinds ty/lifetime/const, refs, arrays, fn pointers, dyn, aliases, ADTs and fn defs "
                "with declared variances) and a structural variant (75%) or an unrelated term, posed as types, as trait-reference argument lists and as domain goals; oracle = real "
                "unification (InferenceTable::relate) after replacing each side's wildcards by fresh unknowns; refuted when could_match == false for a pair that unifies. Every 10th case runs "
                "real solves with the FaultDb filter monitor: each impl omitted by impls_for_trait must fail to unify with the query arguments. "
                "Non-trivial = a pair that unifies (so the filter had to let it through) / a solve in which omitted impls were checked; distinct = the pair.",
        "min_evals": 30000, "min_nontrivial": 10000,
        "require_observed": ["types:unifies=true:could_match=true", "argument-lists:unifies=true:could_match=true", "domain-goals:unifies=true:could_match=true", "filtered-and-indeed-not-unifiable", "runtime:impls-left-out", "head:fn-pointer", "head:ref", "head:array"],
        "assumptions": COMMON_ASSUME + ["the oracle (real unification) is chalk's own unifier, itself monitored by C14"],
    },
    "C25": {
        "level": "exploration",
        "rule": "cases = 12 terms each (types of every TyKind, goals with quantifiers/implications/negation, program clauses) generated on a mirror AST under a binder of 1-3 variables of "
                "random kinds with 2 outer free levels and nested fn-pointer / dyn / where-clause binders; the mirror implements textbook shift and substitution; chalk's shifted_in, "
                "shifted_in_from/shifted_out_to (1-3 levels), shifted_out, Subst::apply and Binders::substitute (identity and random parameters) must equal the converted reference result, "
                "substitution must commute with shifting, and a no-op folder must return an equal value for Ty, Goal, ProgramClause, WhereClause, DomainGoal, InEnvironment, Canonical, "
                "ConstrainedSubst. Non-trivial = a term on which all laws were checked; distinct = the term.",
        "min_evals": 20000, "min_nontrivial": 15000,
        "require_observed": ["laws-checked:ty", "laws-checked:goal", "laws-checked:clause", "head:dyn", "head:fn-pointer", "head:bound-var"],
        "assumptions": COMMON_ASSUME,
    },
    "C26": {
        "level": "exploration",
        "rule": "cases = 25 types each of every TyKind (depth <= 4; lifetimes and consts of every kind in every position, dyn bounds of all four where-clause kinds, fn-pointer binders) "
                "generated on a mirror AST; the stored flags minus STILL_FURTHER_SPECIALIZABLE must equal the flags computed by an independent walk of the mirror written from the flags' "
                "doc comments. Non-trivial = a type with at least one flag; distinct = the type. The evidence lists every flag and head constructor seen.",
        "min_evals": 40000, "min_nontrivial": 10000,
        "require_observed": ["flag-seen:HAS_TY_INFER", "flag-seen:HAS_RE_INFER", "flag-seen:HAS_CT_INFER", "flag-seen:HAS_TY_PLACEHOLDER", "flag-seen:HAS_RE_PLACEHOLDER", "flag-seen:HAS_CT_PLACEHOLDER",
                             "flag-seen:HAS_FREE_LOCAL_REGIONS", "flag-seen:HAS_TY_PROJECTION", "flag-seen:HAS_TY_OPAQUE", "flag-seen:HAS_ERROR", "flag-seen:HAS_RE_ERROR", "flag-seen:HAS_FREE_REGIONS",
                             "flag-seen:HAS_RE_LATE_BOUND", "flag-seen:HAS_RE_ERASED", "head:dyn", "head:array"],
        "assumptions": COMMON_ASSUME,
    },
    "C22": {
        "level": "exploration",
        "rule": "cases = every program{} block of /repo/tests/**/*.rs that lowers and contains only items the writer covers, plus seeded surface-syntax programs (structs/enums with flags, reprs, "
                "variances; traits with flags, well-known attributes, associated types with bounds, GATs; positive/negative/upstream impls with associated values; opaque types; fn definitions; "
                "where-clauses of every form) and programs of the solver generators. T2 = write_items(P1) must lower; P2 must equal P1 item by item with where-clause / bound lists compared as "
                "sets and Implemented clauses implied by an AliasEq of the same list ignored; lowering write_items(P2) must give exactly P2. "
                "Non-trivial = a program that went through both comparisons; distinct = the rendered text.",
        "min_evals": 600, "min_nontrivial": 400,
        "require_observed": ["corpus:reparsed-equivalent", "corpus:second-rendering-exact", "generated:surface:reparsed-equivalent", "generated:surface:second-rendering-exact", "items-round-tripped"],
        "assumptions": COMMON_ASSUME + ["closures, coroutines, foreign types and custom clauses are not items the writer prints; programs containing them are skipped"],
    },
    "C23": {
        "level": "exploration",
        "rule": "cases = every program{}/goal{} group of /repo/tests/test/*.rs (first 6 goals) and seeded programs of the basic/coinductive/auto/associated-type fragments with 1-6 goals; the goals "
                "are solved in order on ONE solver through LoggingRustIrDatabase (on top of the FaultDb guards), the wrapper's Display output must lower, and every goal solved on the logged "
                "program (one solver, same order) must give the same displayed answer; both solvers. Non-trivial = an answer comparison; distinct = (logged text, goal, solver).",
        "min_evals": 400, "min_nontrivial": 800,
        "require_observed": ["corpus:logged-program-lowers", "corpus:same-answer:slg", "corpus:same-answer:recursive", "generated:basic:same-answer:slg", "generated:auto:same-answer:recursive"],
        "case_timeout": 40, "alone_timeout": 40,
        "assumptions": COMMON_ASSUME,
    },
    "C24": {
        "level": "exploration",
        "rule": "inputs = random characters (incl. NUL, non-ASCII), random token sequences over the vocabulary of the grammar and of the test corpus, corpus programs under 1-4 token-level "
                "mutations (delete, duplicate, swap, replace, insert, identifier of another sort, huge integer literals, stray openers, duplicated runs), generated valid programs with injected "
                "semantic errors (unknown names, wrong arities, kind mismatches), and mutated corpus goals lowered against their valid program; each is pushed through parse_program + "
                "program_ir, or parse_goal + lower_goal, under catch_unwind (process death is caught by the supervisor). Refuted by any panic. "
                "Non-trivial = an input that reached lowering (lowered or lowering error); distinct = the input text.",
        "min_evals": 12000, "min_nontrivial": 1200,
        "require_observed": ["random-characters:parse-error", "random-tokens:parse-error", "mutated-corpus-program:lowering-error", "generated-program-with-semantic-errors:lowering-error", "mutated-goal:goal-lowering-error", "mutated-goal:goal-lowered"],
        "deaths_are_violations": True,
        "assumptions": COMMON_ASSUME,
    },
    "C19": {
        "level": "exploration",
        "rule": "cases = seeded programs with 1-2 traits (some with a parameter, some #[marker]) and 2-5 impls each: identical impls, blanket impls, chains and diamonds obtained by instantiating "
                "an earlier header, where-clause guards, negative impls; coherence() under both solvers must not panic; when it accepts, for every pair of impls of a non-marker trait the sets "
                "of ground trait references (types of size <= 3) to which they apply (header match + where-clauses true in the model) are compared: a common reference requires different "
                "priorities, a strict subset requires the higher priority, a partial overlap is refuted. Non-trivial = an accepted program / an accepted overlapping pair with consistent priorities.",
        "min_evals": 600, "min_nontrivial": 150,
        "require_observed": ["accepted", "rejected:overlapping-impls", "pair:overlapping-with-consistent-priorities", "pair:disjoint-on-universe"],
        "assumptions": COMMON_ASSUME,
    },
    "C20": {
        "level": "exploration",
        "rule": "cases = 6 single-impl programs each: a local or #[upstream] trait with 0-2 parameters and an impl whose 1-3 type arguments are drawn (depth <= 2) from local structs, upstream "
                "structs, upstream/local #[fundamental] structs, scalars, str, tuples and impl parameters; orphan_check() under both solvers is compared with the rule of the statement evaluated "
                "on the AST (trait local, or some argument local looking through fundamental constructors with every earlier argument free of impl parameters). "
                "Non-trivial = a verdict comparison; distinct = (trait, impl, solver). The histogram lists the position of the first local argument.",
        "min_evals": 3000, "min_nontrivial": 1500,
        "require_observed": ["agrees:allowed:local-trait", "agrees:allowed:upstream-trait:first-local-arg=Some(0)", "agrees:allowed:upstream-trait:first-local-arg=Some(1)", "agrees:rejected:upstream-trait:first-local-arg=None", "agrees:rejected:upstream-trait:first-local-arg=Some(1)"],
        "assumptions": COMMON_ASSUME,
    },
    "C21": {
        "level": "exploration",
        "rule": "cases = seeded programs with supertrait hierarchies (Self bounds, bounds on the trait's parameter, occasional cycles), generic structs with where-clauses and fields mentioning other "
                "structs, concrete and blanket impls with sound or missing bounds; for every program accepted by checked_program() (both solvers) the model enumerates ground types of size <= 3: "
                "every WF type (struct where-clauses hold recursively) that implements a trait must satisfy the trait's where-clauses; every field type of a WF struct instance must be WF; "
                "goals forall<T>{ if (T: Tr) { T: Super } } proven Unique must be true at every such instance. Non-trivial = an accepted program with ground consequences checked.",
        "min_evals": 1000, "min_nontrivial": 100,
        "require_observed": ["accepted", "rejected:wf", "ground-consequences-checked", "implied-bound-goal-true-at-all-wf-instances"],
        "assumptions": COMMON_ASSUME,
    },
    "C29": {
        "level": "exploration",
        "rule": "cases = 6 goals each: forall<'p0,'p1,'p2>{ exists<'x0,'x1>{ Subtype(A, B) } } where A is a type of depth <= 3 over &, &mut, fn pointers, tuples and eight ADTs with declared "
                "variances over lifetime and type parameters, and B is A with fresh lifetimes (and, rarely, a structural change); oracle = structural walk with variance composition giving "
                "the required outlives set (after applying the answer's substitution for the unknown lifetimes; reflexive pairs dropped); refuted when Subtype is Unique on differing "
                "structures, not Unique on agreeing ones, or returns a different constraint set. Non-trivial = a judged answer; distinct = (goal, solver).",
        "min_evals": 4000, "min_nontrivial": 2500,
        "require_observed": ["requirements-match:some", "requirements-match:none", "structures-differ:not-unique"],
        "assumptions": COMMON_ASSUME,
    },
    "C27": {
        "level": "fault_enumeration", "runner": "run_c27", "engine": "memsafe", "exhaustive": True,
        "rule": "fault enumeration over the in-place fold helpers (hook H1 and the public Vec/Box TypeFoldable route): every vector length 0..=10, every failing position (none / each index), "
                "both failure modes (Err return, panic), spare capacity 0 and 3, five element-type pairs (same layout, different alignment, different size, identical type, zero-sized) "
                "and boxes x {ok, Err, panic}. Monitors: drop accounting through a side table of counters (on failure every id dropped exactly once, on success none before the result is "
                "dropped), heap balance through a counting global allocator (catches a leaked block whose value was dropped), Miri (UB, leaks, double free, uninitialised reads; quick: "
                "lengths 0..=4, thorough: 0..=10), and in the thorough tier valgrind memcheck and an AddressSanitizer/LeakSanitizer build. "
                "evaluations = cells executed summed over tools; distinct non-trivial = distinct cells of the native matrix in which a failure was injected and fully accounted for.",
        "min_evals": 1500, "min_nontrivial": 900,
        "require_observed": ["cells:native-matrix", "cells:native-public-route", "cells:miri-shard-0", "failures-injected:native-matrix"],
        "technique": "fault enumeration under drop accounting + heap-balance monitor + Miri (+ valgrind memcheck and AddressSanitizer in the thorough tier)",
        "assumptions": COMMON_ASSUME + ["Miri / ASan / valgrind see only the paths the matrix and the public fold route drive"],
    },
}

HOOK_COMMITS = ["d77ca2a", "4f79b4b", "3978b55", "ebc00bf", "4e67e9f", "61e227f"]
