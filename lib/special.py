"""Runners for checks that are not plain worker/supervisor runs (C27: memory safety of the in-place fold helpers)."""
import json, os, subprocess, sys, time, concurrent.futures
import supervisor as S

MEMSAFE = os.path.join(S.VERIF, "memsafe")


def _run(cmd, env=None, timeout=900, cwd=MEMSAFE):
    e = S.cargo_env()
    if env:
        e.update(env)
    try:
        r = subprocess.run(cmd, cwd=cwd, env=e, stdout=subprocess.PIPE, stderr=subprocess.PIPE, text=True, timeout=timeout)
        return r.returncode, r.stdout, r.stderr
    except subprocess.TimeoutExpired as ex:
        return None, (ex.stdout or b"").decode(errors="replace") if isinstance(ex.stdout, bytes) else (ex.stdout or ""), "TIMEOUT"


def _parse(out):
    cells = injected = 0
    viol, samples, last = [], [], None
    summary = False
    for line in out.splitlines():
        if line.startswith("CELL "):
            last = line[5:]
        elif line.startswith("VIOLATION "):
            viol.append(line[10:])
        elif line.startswith("SAMPLE "):
            samples.append(line[7:])
        elif line.startswith("SUMMARY "):
            summary = True
            for kv in line.split()[1:]:
                k, _, v = kv.partition("=")
                if k == "cells":
                    cells = int(v)
                elif k == "failures_injected":
                    injected = int(v)
    return cells, injected, viol, samples, last, summary


def run_c27(prop, tier, seed, meta, t0):
    agg = S.Agg()
    agg.ncases = None
    extra_viol = []
    tools = {}

    def note(tool, rc, out, err, what):
        """Fold one tool run into the aggregate. A tool error that is not a memory error is inconclusive."""
        cells, injected, viol, samples, last, summary = _parse(out)
        tools[tool] = {"cells": cells, "failures_injected": injected, "exit": rc}
        agg.evals += cells
        agg.hist["cells:%s" % tool] += cells
        agg.hist["failures-injected:%s" % tool] += injected
        for s in samples[:4]:
            if len(agg.samples) < 6:
                agg.samples.append({"tool": tool, "cell": s})
        for v in viol:
            extra_viol.append({"k": -1, "sig": None, "what": "%s: %s" % (tool, v), "detail": {"tool": tool, "cell": v, "command": what}})
        if rc is None:
            agg.inc["%s timed out" % tool] += 1
        elif rc != 0 and not viol:
            memory_error = any(m in err or m in out for m in ("Undefined Behavior", "memory leaked", "AddressSanitizer", "LeakSanitizer", "double free", "Invalid read", "Invalid write", "Invalid free", "definitely lost", "ERROR SUMMARY: "))
            crashed = rc < 0 or rc in (134, 139, 66, 9) or memory_error
            if crashed and (summary is False or memory_error):
                extra_viol.append({"k": -1, "sig": None, "what": "%s: process failed (exit %s) %s; last cell: %s" % (tool, rc, "with a memory error report" if memory_error else "before finishing the matrix", last),
                                   "detail": {"tool": tool, "last_cell": last, "stderr_tail": err[-3000:], "command": what}})
            else:
                agg.inc["%s failed without a memory error (exit %s)" % (tool, rc)] += 1
                tools[tool]["stderr_tail"] = err[-800:]

    # 1. native build + native runs (drop accounting + heap balance, full matrix)
    rc, out, err = _run(["cargo", "build", "--release", "--offline", "--features", "pubroute"], timeout=1200)
    if rc != 0:
        S.log(err[-2000:])
        S.log("INCONCLUSIVE property=%s memsafe build failed (does /repo compile?)" % prop)
        return 2
    max_len = 10
    cmd = [os.path.join(MEMSAFE, "target", "release", "matrix"), "--max-len", str(max_len)]
    rc, out, err = _run(cmd)
    note("native-matrix", rc, out, err, " ".join(cmd))
    native_injected = tools["native-matrix"]["failures_injected"]
    cmd = [os.path.join(MEMSAFE, "target", "release", "pubroute"), "--max-len", "8"]
    rc, out, err = _run(cmd)
    note("native-public-route", rc, out, err, " ".join(cmd))
    native_injected += tools["native-public-route"]["failures_injected"]

    # 2. Miri (UB, leaks, double free, uninitialised reads) on the hook route, sharded
    miri_len, shards = (4, 8) if tier == "quick" else (10, 16)
    base = ["cargo", "+nightly", "miri", "run", "--offline", "--bin", "matrix", "--"]
    first = base + ["--max-len", str(miri_len), "--shard", "0", "--nshards", str(shards)]
    rc, out, err = _run(first, env={"MIRIFLAGS": "-Zmiri-disable-isolation"}, timeout=1500)
    note("miri-shard-0", rc, out, err, " ".join(first))

    def one(i):
        c = base + ["--max-len", str(miri_len), "--shard", str(i), "--nshards", str(shards)]
        return i, c, _run(c, env={"MIRIFLAGS": "-Zmiri-disable-isolation"}, timeout=1500)

    with concurrent.futures.ThreadPoolExecutor(max_workers=min(15, shards)) as ex:
        for i, c, (rc, out, err) in ex.map(one, range(1, shards)):
            note("miri-shard-%d" % i, rc, out, err, " ".join(c))

    if tier == "thorough":
        # 3. valgrind memcheck on the plain release binaries
        for name, binary, args in (("valgrind-matrix", "matrix", ["--max-len", "8"]), ("valgrind-public-route", "pubroute", ["--max-len", "6"])):
            cmd = ["valgrind", "-q", "--error-exitcode=9", "--leak-check=full", "--errors-for-leak-kinds=definite,indirect", os.path.join(MEMSAFE, "target", "release", binary)] + args
            rc, out, err = _run(cmd, timeout=2400)
            note(name, rc, out, err, " ".join(cmd))
        # 4. AddressSanitizer (+LeakSanitizer) build
        env = {"RUSTFLAGS": "--cfg chalk_verif -Zsanitizer=address -Cforce-frame-pointers=yes", "ASAN_OPTIONS": "detect_leaks=1:halt_on_error=1:abort_on_error=0"}
        cmd = ["cargo", "+nightly", "build", "--release", "--offline", "--features", "pubroute", "--target", "x86_64-unknown-linux-gnu", "--target-dir", os.path.join(MEMSAFE, "target", "asan")]
        rc, out, err = _run(cmd, env=env, timeout=2400)
        if rc == 0:
            for name, binary, args in (("asan-matrix", "matrix", ["--max-len", "10"]), ("asan-public-route", "pubroute", ["--max-len", "8"])):
                cmd = [os.path.join(MEMSAFE, "target", "asan", "x86_64-unknown-linux-gnu", "release", binary)] + args
                rc2, out2, err2 = _run(cmd, env=env, timeout=1200)
                note(name, rc2, out2, err2, " ".join(cmd))
        else:
            agg.inc["asan build failed (tooling)"] += 1
            tools["asan-build"] = {"stderr_tail": err[-800:]}

    # distinct non-trivial: cells of the (exhaustive) native matrix in which a failure was injected and accounted for
    for i in range(native_injected):
        agg.nt.add("cell-%d" % i)
    agg.cases_done = len(tools)
    extra = {"tools": tools, "exhaustive": True,
             "matrix": "vector lengths 0..=%d x failing position (none, each index) x {Err, panic} x spare capacity {0,3} x targets {same layout, different alignment, different size, identical type, zero-sized} + boxes x {ok, Err, panic}; "
                       "public route: Vec<Tracked>/Box<Tracked>::try_fold_with, lengths 0..=8; Miri: lengths 0..=%d in %d shards" % (max_len, miri_len, shards)}
    return S.judge_and_report(prop, tier, seed, meta, agg, t0, extra_cov=extra, extra_violations=extra_viol)
