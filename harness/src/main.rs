mod case;
mod common;
mod corpus;
mod drive;
mod gen;
mod irfull;
mod irgen;
mod json;
mod judge;
mod model;
mod props;
mod rng;
mod surface;
mod zoo;

use case::Tier;

fn arg(args: &[String], name: &str) -> Option<String> {
    args.iter().position(|a| a == name).and_then(|i| args.get(i + 1).cloned())
}

fn main() {
    let args: Vec<String> = std::env::args().collect();
    if args.len() >= 4 && args[1] == "try" {
        // debugging aid: chalk-verif try <program-file> <goal>...
        drive::install_panic_hook();
        let text = std::fs::read_to_string(&args[2]).expect("program file");
        for choice in drive::both() {
            match drive::load(&text, choice, false) {
                Err(e) => println!("{}: program error: {}", drive::solver_name(&choice), e),
                Ok(l) => drive::with_program(&l, || {
                    for g in &args[3..] {
                        match drive::lower_goal_text(&l, g) {
                            Err(e) => println!("{}: {} => goal error: {}", drive::solver_name(&choice), g, e),
                            Ok(goal) => {
                                use chalk_solve::ext::GoalExt;
                                let peeled = goal.into_peeled_goal(chalk_integration::interner::ChalkIr);
                                if drive::solver_name(&choice) == "slg" {
                                    // through the concrete type so that the table dump (hook H4) can be shown
                                    let db = drive::FaultDb::new(&*l.program, "slg");
                                    let mut s = chalk_engine::solve::SLGSolver::<drive::I>::new(10, None);
                                    let o = drive::solve(&mut s, &db, &peeled);
                                    println!("slg: {} => {} (callbacks {}, nonground-coinductive {})", g, o.show(), db.calls.get(), db.nonground_coinductive.get());
                                    let t = s.verif_tables();
                                    println!("  tables {} | answers {} | answers with delayed subgoals {} | max answers in one table {} | tables with subsumed answers {}", t.len(), t.iter().map(|x| x.answers).sum::<usize>(), t.iter().map(|x| x.answers_with_delayed_subgoals).sum::<usize>(), t.iter().map(|x| x.answers).max().unwrap_or(0), s.verif_tables_with_subsumed_answers(chalk_integration::interner::ChalkIr));
                                    continue;
                                }
                                let (o, calls, flag) = drive::fresh_solve(&l, choice, &peeled);
                                println!("{}: {} => {} (callbacks {}, nonground-coinductive {})", drive::solver_name(&choice), g, o.show(), calls, flag);
                            }
                        }
                    }
                }),
            }
        }
        return;
    }
    if args.len() >= 4 && args[1] == "tryseq" {
        // debugging aid: chalk-verif tryseq <program-file> <goal>...   (all goals in order on ONE solver per solver kind)
        drive::install_panic_hook();
        let text = std::fs::read_to_string(&args[2]).expect("program file");
        for choice in drive::both() {
            if let Ok(l) = drive::load(&text, choice, false) {
                drive::with_program(&l, || {
                    let mut s = choice.into_solver();
                    for g in &args[3..] {
                        if let Ok(goal) = drive::lower_goal_text(&l, g) {
                            use chalk_solve::ext::GoalExt;
                            let peeled = goal.into_peeled_goal(chalk_integration::interner::ChalkIr);
                            let db = drive::FaultDb::new(&*l.program, drive::solver_name(&choice));
                            let o = drive::solve(&mut *s, &db, &peeled);
                            println!("{}: {} => {} (callbacks {})", drive::solver_name(&choice), g, o.show(), db.calls.get());
                        }
                    }
                });
            }
        }
        return;
    }
    if args.len() >= 3 && args[1] == "corpus" {
        let c = corpus::load_corpus();
        let k: usize = args[2].parse().unwrap_or(0);
        println!("{} entries; entry {}: {}\n{}\ngoals: {:#?}", c.len(), k, c[k].file, c[k].program, c[k].goals);
        return;
    }
    if args.len() < 3 || args[1] != "worker" {
        eprintln!("usage: chalk-verif worker <PROP> --tier quick|thorough --seed S --shard i --nshards W [--start k] [--only k]");
        std::process::exit(64);
    }
    let prop = args[2].clone();
    let tier = match arg(&args, "--tier").as_deref() {
        Some("thorough") => Tier::Thorough,
        _ => Tier::Quick,
    };
    let seed: u64 = arg(&args, "--seed").and_then(|s| s.parse().ok()).unwrap_or(1);
    let shard: u64 = arg(&args, "--shard").and_then(|s| s.parse().ok()).unwrap_or(0);
    let nshards: u64 = arg(&args, "--nshards").and_then(|s| s.parse().ok()).unwrap_or(1);
    let start: u64 = arg(&args, "--start").and_then(|s| s.parse().ok()).unwrap_or(0);
    let only: Option<u64> = arg(&args, "--only").and_then(|s| s.parse().ok());
    drive::install_panic_hook();
    let defs = props::all();
    let p = match defs.iter().find(|p| p.id == prop) {
        Some(p) => p,
        None => {
            eprintln!("unknown property {}", prop);
            std::process::exit(64);
        }
    };
    // Large stack: chalk recurses deeply on big terms; the supervisor still catches real overflows.
    let child = std::thread::Builder::new().stack_size(256 << 20).spawn({
        let p = case::PropDef { id: p.id, cases: p.cases, run: p.run };
        move || case::run_worker(&p, seed, tier, shard, nshards, start, only)
    });
    child.unwrap().join().unwrap();
}
