//! Per-case result record and the worker journal protocol.
//!
//! Worker stdout lines (one JSON-free prefix + payload):
//!   `N <ncases>`                  total number of cases of this (property, tier)
//!   `B <k>`                       case k begins
//!   `F <k> <solver> <flag>`       a FaultDb flag was raised during case k (flushed immediately, survives aborts)
//!   `E <k> <json>`                case k ended, json = CaseOut
use crate::json::J;
use std::collections::BTreeMap;
use std::io::Write;

#[derive(Clone, Copy, PartialEq, Eq, Debug)]
pub enum Tier {
    Quick,
    Thorough,
}

#[derive(Clone, Debug)]
pub struct Ctx {
    pub prop: &'static str,
    pub seed: u64,
    pub tier: Tier,
    /// current case index
    pub k: u64,
}

#[derive(Clone, Debug)]
pub struct Violation {
    /// Root-cause signature if the monitor could compute one (matched against known_findings.json), else None.
    pub sig: Option<String>,
    /// One-line description of what failed.
    pub what: String,
    /// Everything needed to understand / replay (program text, goal, expected, observed ...).
    pub detail: J,
}

#[derive(Default, Debug)]
pub struct CaseOut {
    /// number of oracle-judged executions in this case
    pub evals: u64,
    /// hashes of distinct non-trivial (by the property's rule) observations
    pub nontrivial: Vec<u64>,
    /// named counters (answer kinds, verdict kinds, crash points...)
    pub hist: BTreeMap<String, u64>,
    pub violations: Vec<Violation>,
    /// things the monitor could not decide (with a reason label)
    pub inconclusive: BTreeMap<String, u64>,
    /// an example of what this case looked like
    pub sample: Option<J>,
    /// max of named gauges (e.g. largest callback count seen)
    pub maxes: BTreeMap<String, u64>,
}

impl CaseOut {
    pub fn count(&mut self, key: &str) {
        *self.hist.entry(key.to_string()).or_insert(0) += 1;
    }
    pub fn add(&mut self, key: &str, n: u64) {
        *self.hist.entry(key.to_string()).or_insert(0) += n;
    }
    pub fn inconclusive(&mut self, why: &str) {
        *self.inconclusive.entry(why.to_string()).or_insert(0) += 1;
    }
    pub fn nt(&mut self, s: &str) {
        self.nontrivial.push(crate::rng::hash_str(s));
    }
    pub fn gauge(&mut self, key: &str, v: u64) {
        let e = self.maxes.entry(key.to_string()).or_insert(0);
        if v > *e {
            *e = v;
        }
    }
    pub fn violation(&mut self, sig: Option<&str>, what: impl Into<String>, detail: J) {
        self.violations.push(Violation { sig: sig.map(|s| s.to_string()), what: what.into(), detail });
    }
    pub fn to_json(&self) -> J {
        let mut o = J::obj();
        o.put("evals", self.evals);
        o.put("nt", J::Arr(self.nontrivial.iter().map(|h| J::Str(format!("{:016x}", h))).collect()));
        o.put("hist", J::Obj(self.hist.iter().map(|(k, v)| (k.clone(), J::from(*v))).collect()));
        o.put("inc", J::Obj(self.inconclusive.iter().map(|(k, v)| (k.clone(), J::from(*v))).collect()));
        o.put("max", J::Obj(self.maxes.iter().map(|(k, v)| (k.clone(), J::from(*v))).collect()));
        o.put(
            "viol",
            J::Arr(
                self.violations
                    .iter()
                    .map(|v| {
                        J::obj()
                            .set("sig", match &v.sig { Some(s) => J::Str(s.clone()), None => J::Null })
                            .set("what", v.what.as_str())
                            .set("detail", v.detail.clone())
                    })
                    .collect(),
            ),
        );
        if let Some(s) = &self.sample {
            o.put("sample", s.clone());
        }
        o
    }
}

pub fn emit(line: &str) {
    let out = std::io::stdout();
    let mut l = out.lock();
    let _ = l.write_all(line.as_bytes());
    let _ = l.write_all(b"\n");
    let _ = l.flush();
}

thread_local! {
    pub static CUR_CASE: std::cell::Cell<u64> = const { std::cell::Cell::new(0) };
}

/// Journal a flag immediately (so that it survives a process abort).
pub fn emit_flag(solver: &str, flag: &str, solve_id: u64) {
    let k = CUR_CASE.with(|c| c.get());
    emit(&format!("F {} {} {} {}", k, solver, flag, solve_id));
}

/// The flagged solve ended (returned or unwound) — the flag no longer explains a later death.
pub fn emit_flag_done(solve_id: u64) {
    let k = CUR_CASE.with(|c| c.get());
    emit(&format!("D {} {}", k, solve_id));
}

pub struct PropDef {
    pub id: &'static str,
    pub cases: fn(Tier) -> u64,
    pub run: fn(&Ctx, &mut CaseOut),
}

pub fn run_worker(p: &PropDef, seed: u64, tier: Tier, shard: u64, nshards: u64, start: u64, only: Option<u64>) {
    let n = (p.cases)(tier);
    emit(&format!("N {}", n));
    let mut k = match only {
        Some(k) => k,
        None => {
            // first k >= start with k % nshards == shard
            let mut k = start;
            while k % nshards != shard {
                k += 1;
            }
            k
        }
    };
    while k < n || only.is_some() {
        CUR_CASE.with(|c| c.set(k));
        emit(&format!("B {}", k));
        let ctx = Ctx { prop: p.id, seed, tier, k };
        let mut out = CaseOut::default();
        let r = std::panic::catch_unwind(std::panic::AssertUnwindSafe(|| (p.run)(&ctx, &mut out)));
        if let Err(e) = r {
            // A panic escaping a monitor is a harness error, not a verdict.
            let msg = panic_msg(&e);
            out.inconclusive(&format!("harness-panic: {}", truncate(&msg, 200)));
        }
        emit(&format!("E {} {}", k, out.to_json().to_string()));
        if only.is_some() {
            break;
        }
        k += nshards;
    }
}

pub fn panic_msg(e: &Box<dyn std::any::Any + Send>) -> String {
    if let Some(s) = e.downcast_ref::<String>() {
        s.clone()
    } else if let Some(s) = e.downcast_ref::<&str>() {
        s.to_string()
    } else {
        "<non-string panic payload>".to_string()
    }
}

pub fn truncate(s: &str, n: usize) -> String {
    if s.len() <= n {
        s.to_string()
    } else {
        let mut e = n;
        while !s.is_char_boundary(e) {
            e -= 1;
        }
        format!("{}…", &s[..e])
    }
}
