//! Surface-syntax generator: `.chalk` program texts exercising the item grammar (flags, reprs, variances, well-known
//! attributes, associated types with bounds, opaque types, fn definitions, every where-clause form). Programs that do
//! not lower are skipped (and counted) by the users.
use crate::rng::Rng;

#[derive(Clone, Debug, PartialEq)]
enum PK {
    Ty,
    Lt,
    Const,
}

#[derive(Clone, Debug)]
struct Adt {
    name: String,
    params: Vec<PK>,
}

#[derive(Clone, Debug)]
struct Tr {
    name: String,
    params: Vec<PK>,
    assoc: Vec<String>,
    auto: bool,
    object_safe: bool,
}

struct Scope {
    tys: Vec<String>,
    lts: Vec<String>,
    consts: Vec<String>,
}

pub struct Gen<'r> {
    r: &'r mut Rng,
    adts: Vec<Adt>,
    traits: Vec<Tr>,
    opaques: Vec<String>,
    out: String,
}

impl<'r> Gen<'r> {
    fn lt(&mut self, sc: &Scope) -> String {
        if !sc.lts.is_empty() && self.r.chance(70) {
            self.r.pick(&sc.lts).clone()
        } else {
            "'static".into()
        }
    }
    fn konst(&mut self, sc: &Scope) -> String {
        if !sc.consts.is_empty() && self.r.chance(60) {
            self.r.pick(&sc.consts).clone()
        } else {
            format!("{}", self.r.below(5))
        }
    }
    fn args_for(&mut self, params: &[PK], sc: &Scope, d: usize) -> String {
        if params.is_empty() {
            return String::new();
        }
        let a: Vec<String> = params
            .iter()
            .map(|k| match k {
                PK::Ty => self.ty(sc, d),
                PK::Lt => self.lt(sc),
                PK::Const => self.konst(sc),
            })
            .collect();
        format!("<{}>", a.join(", "))
    }
    fn ty(&mut self, sc: &Scope, d: usize) -> String {
        let k = self.r.below(if d == 0 { 6 } else { 16 });
        let d1 = d.saturating_sub(1);
        match k {
            0 | 1 if !sc.tys.is_empty() => self.r.pick(&sc.tys).clone(),
            0..=3 => ["u8", "u32", "i32", "bool", "f64", "usize", "char", "str", "!", "()"][self.r.below(10)].to_string(),
            4 | 5 => {
                let nullary: Vec<Adt> = self.adts.iter().filter(|a| a.params.is_empty()).cloned().collect();
                if nullary.is_empty() {
                    "u8".into()
                } else {
                    self.r.pick(&nullary).name.clone()
                }
            }
            6 | 7 | 8 => {
                if self.adts.is_empty() {
                    return "u32".into();
                }
                let a = self.r.pick(&self.adts).clone();
                let args = self.args_for(&a.params, sc, d1);
                format!("{}{}", a.name, args)
            }
            9 => format!("({}, {})", self.ty(sc, d1), self.ty(sc, d1)),
            10 => format!("[{}; {}]", self.ty(sc, d1), self.konst(sc)),
            11 => format!("[{}]", self.ty(sc, d1)),
            12 => {
                let l = self.lt(sc);
                format!("&{} {}{}", l, if self.r.chance(30) { "mut " } else { "" }, self.ty(sc, d1))
            }
            13 => format!("*{} {}", if self.r.chance(50) { "const" } else { "mut" }, self.ty(sc, d1)),
            14 => {
                let n = self.r.below(3);
                let a: Vec<String> = (0..n).map(|_| self.ty(sc, 0)).collect();
                format!("fn({}) -> {}", a.join(", "), self.ty(sc, 0))
            }
            _ => {
                let os: Vec<Tr> = self.traits.iter().filter(|t| t.object_safe && t.params.is_empty()).cloned().collect();
                if os.is_empty() {
                    "u32".into()
                } else {
                    let t = self.r.pick(&os).clone();
                    let l = self.lt(sc);
                    format!("dyn {} + {}", t.name, l)
                }
            }
        }
    }
    fn trait_ref(&mut self, t: &Tr, sc: &Scope, with_assoc: bool) -> String {
        let mut parts: Vec<String> = t
            .params
            .iter()
            .map(|k| match k {
                PK::Ty => self.ty(sc, 1),
                PK::Lt => self.lt(sc),
                PK::Const => self.konst(sc),
            })
            .collect();
        if with_assoc && !t.assoc.is_empty() && self.r.chance(35) {
            let a = self.r.pick(&t.assoc).clone();
            parts.push(format!("{} = {}", a, self.ty(sc, 1)));
        }
        if parts.is_empty() {
            t.name.clone()
        } else {
            format!("{}<{}>", t.name, parts.join(", "))
        }
    }
    fn where_clauses(&mut self, sc: &Scope, max: usize) -> String {
        let n = self.r.below(max + 1);
        let mut wcs = vec![];
        for _ in 0..n {
            if self.traits.is_empty() {
                break;
            }
            let t = self.r.pick(&self.traits).clone();
            let subj = if !sc.tys.is_empty() && self.r.chance(75) { self.r.pick(&sc.tys).clone() } else { self.ty(sc, 1) };
            match self.r.below(9) {
                0 if sc.lts.len() >= 1 => {
                    let a = self.lt(sc);
                    let b = self.lt(sc);
                    wcs.push(format!("{}: {}", a, b));
                }
                1 if !sc.lts.is_empty() && !sc.tys.is_empty() => {
                    let a = self.r.pick(&sc.tys).clone();
                    let l = self.lt(sc);
                    wcs.push(format!("{}: {}", a, l));
                }
                2 if !t.assoc.is_empty() && !t.auto => {
                    // projection equality written out
                    let a = self.r.pick(&t.assoc).clone();
                    let tr = self.trait_ref(&t, sc, false);
                    let v = self.ty(sc, 1);
                    wcs.push(format!("<{} as {}>::{} = {}", subj, tr, a, v));
                }
                3 if t.params.iter().any(|k| *k == PK::Lt) => {
                    // higher-ranked bound
                    let mut sc2 = Scope { tys: sc.tys.clone(), lts: sc.lts.clone(), consts: sc.consts.clone() };
                    sc2.lts.push("'hr".into());
                    let tr = self.trait_ref(&t, &sc2, false);
                    wcs.push(format!("forall<'hr> {}: {}", subj, tr));
                }
                _ => {
                    let tr = self.trait_ref(&t, sc, true);
                    wcs.push(format!("{}: {}", subj, tr));
                }
            }
        }
        if wcs.is_empty() {
            String::new()
        } else {
            format!(" where {}", wcs.join(", "))
        }
    }
    fn params(&mut self, prefix: &str, max: usize) -> (Vec<PK>, Scope, String) {
        let n = self.r.below(max + 1);
        let mut kinds = vec![];
        let mut sc = Scope { tys: vec![], lts: vec![], consts: vec![] };
        let mut names = vec![];
        for i in 0..n {
            match self.r.below(6) {
                0 => {
                    kinds.push(PK::Lt);
                    let n = format!("'{}{}", prefix.to_lowercase(), i);
                    sc.lts.push(n.clone());
                    names.push(n);
                }
                1 => {
                    kinds.push(PK::Const);
                    let n = format!("{}C{}", prefix, i);
                    sc.consts.push(n.clone());
                    names.push(format!("const {}", n));
                }
                _ => {
                    kinds.push(PK::Ty);
                    let n = format!("{}T{}", prefix, i);
                    sc.tys.push(n.clone());
                    names.push(n);
                }
            }
        }
        let text = if names.is_empty() { String::new() } else { format!("<{}>", names.join(", ")) };
        (kinds, sc, text)
    }
    fn adt(&mut self, idx: usize) {
        let name = format!("S{}", idx);
        let (kinds, sc, ptext) = self.params(&name, 3);
        let mut attrs = String::new();
        if !kinds.is_empty() && self.r.chance(25) {
            let vs: Vec<&str> = kinds.iter().map(|_| ["Invariant", "Covariant", "Contravariant"][self.r.below(3)]).collect();
            attrs.push_str(&format!("#[variance({})] ", vs.join(", ")));
        }
        if self.r.chance(15) {
            attrs.push_str("#[upstream] ");
        }
        if self.r.chance(10) && kinds.iter().filter(|k| **k == PK::Ty).count() == 1 && kinds.len() == 1 {
            attrs.push_str("#[fundamental] ");
        }
        if self.r.chance(8) {
            attrs.push_str("#[phantom_data] ");
        }
        let is_enum = self.r.chance(35);
        match self.r.below(8) {
            0 => attrs.push_str("#[repr(C)] "),
            1 => attrs.push_str("#[repr(packed)] "),
            2 if is_enum => attrs.push_str(["#[repr(u8)] ", "#[repr(i32)] ", "#[repr(C)] #[repr(u8)] ", "#[repr(packed)] #[repr(u8)] "][self.r.below(4)]),
            3 => attrs.push_str("#[repr(C)] #[repr(packed)] "),
            _ => {}
        }
        let wh = self.where_clauses(&sc, 2);
        // register before generating fields so that recursive types are possible
        self.adts.push(Adt { name: name.clone(), params: kinds });
        if is_enum {
            let nv = 1 + self.r.below(3);
            let vs: Vec<String> = (0..nv)
                .map(|v| {
                    let nf = self.r.below(3);
                    let fs: Vec<String> = (0..nf).map(|f| format!("f{}: {}", f, self.ty(&sc, 2))).collect();
                    format!("V{} {{ {} }}", v, fs.join(", "))
                })
                .collect();
            self.out.push_str(&format!("{}enum {}{}{} {{ {} }}\n", attrs, name, ptext, wh, vs.join(", ")));
        } else {
            let nf = self.r.below(4);
            let fs: Vec<String> = (0..nf).map(|f| format!("f{}: {}", f, self.ty(&sc, 2))).collect();
            self.out.push_str(&format!("{}struct {}{}{} {{ {} }}\n", attrs, name, ptext, wh, fs.join(", ")));
        }
    }
    fn tr(&mut self, idx: usize) {
        let name = format!("Tr{}", idx);
        let auto = self.r.chance(12);
        let (kinds, mut sc, ptext) = if auto { (vec![], Scope { tys: vec![], lts: vec![], consts: vec![] }, String::new()) } else { self.params(&name, 2) };
        sc.tys.push("Self".into());
        let mut attrs = String::new();
        let mut object_safe = false;
        if auto {
            attrs.push_str("#[auto] ");
        } else {
            if self.r.chance(10) {
                attrs.push_str("#[marker] ");
            }
            if self.r.chance(12) {
                attrs.push_str("#[upstream] ");
            }
            if self.r.chance(8) {
                attrs.push_str("#[fundamental] ");
            }
            if self.r.chance(10) {
                attrs.push_str("#[non_enumerable] ");
            }
            if self.r.chance(10) {
                attrs.push_str("#[coinductive] ");
            }
            if self.r.chance(35) {
                attrs.push_str("#[object_safe] ");
                object_safe = true;
            }
        }
        let wh = if auto { String::new() } else { self.where_clauses(&sc, 2) };
        let mut assoc = vec![];
        let mut body = String::new();
        if !auto {
            for a in 0..self.r.below(3) {
                let an = format!("A{}", a);
                // bounds on the associated type
                let mut bounds = vec![];
                for _ in 0..self.r.below(3) {
                    if let Some(t) = self.traits.iter().filter(|t| !t.auto || true).cloned().collect::<Vec<_>>().get(self.r.below(self.traits.len().max(1))) {
                        let t = t.clone();
                        bounds.push(self.trait_ref(&t, &sc, true));
                    }
                }
                if self.r.chance(15) {
                    bounds.push("'static".into());
                }
                let b = if bounds.is_empty() { String::new() } else { format!(": {}", bounds.join(" + ")) };
                // generic associated types now and then
                if self.r.chance(20) {
                    let mut sc2 = Scope { tys: sc.tys.clone(), lts: sc.lts.clone(), consts: sc.consts.clone() };
                    sc2.tys.push("G".into());
                    let w = self.where_clauses(&sc2, 1);
                    body.push_str(&format!("type {}<G>{}{}; ", an, b, w));
                } else {
                    body.push_str(&format!("type {}{}; ", an, b));
                    assoc.push(an);
                }
            }
        }
        self.traits.push(Tr { name: name.clone(), params: kinds, assoc, auto, object_safe });
        self.out.push_str(&format!("{}trait {}{}{} {{ {}}}\n", attrs, name, ptext, wh, body));
    }
    fn imp(&mut self, idx: usize) {
        if self.traits.is_empty() {
            return;
        }
        let t = self.r.pick(&self.traits).clone();
        let (_k, sc, ptext) = self.params(&format!("I{}", idx), 3);
        let neg = self.r.chance(12);
        let up = self.r.chance(10);
        let self_ty = self.ty(&sc, 2);
        let tr = self.trait_ref(&t, &sc, false);
        let wh = self.where_clauses(&sc, 2);
        let mut body = String::new();
        if !neg {
            for a in &t.assoc {
                body.push_str(&format!("type {} = {}; ", a, self.ty(&sc, 2)));
            }
        }
        self.out.push_str(&format!("{}impl{} {}{} for {}{} {{ {}}}\n", if up { "#[upstream] " } else { "" }, ptext, if neg { "!" } else { "" }, tr, self_ty, wh, body));
    }
    fn opaque(&mut self, idx: usize) {
        let name = format!("Op{}", idx);
        let (_k, sc, ptext) = self.params(&name, 2);
        let mut bounds = vec![];
        for _ in 0..self.r.below(3) {
            if self.traits.is_empty() {
                break;
            }
            let t = self.r.pick(&self.traits).clone();
            bounds.push(self.trait_ref(&t, &sc, true));
        }
        let b = if bounds.is_empty() { String::new() } else { format!(": {}", bounds.join(" + ")) };
        let hidden = self.ty(&sc, 2);
        self.opaques.push(name.clone());
        self.out.push_str(&format!("opaque type {}{}{} = {};\n", name, ptext, b, hidden));
    }
    fn fndef(&mut self, idx: usize) {
        let name = format!("func{}", idx);
        let (_k, sc, ptext) = self.params(&format!("F{}", idx), 3);
        let n = self.r.below(3);
        let args: Vec<String> = (0..n).map(|i| format!("a{}: {}", i, self.ty(&sc, 2))).collect();
        let ret = if self.r.chance(60) { format!(" -> {}", self.ty(&sc, 2)) } else { String::new() };
        let wh = self.where_clauses(&sc, 2);
        self.out.push_str(&format!("fn {}{}({}){}{};\n", name, ptext, args.join(", "), ret, wh));
    }
}

pub fn gen_surface_program(r: &mut Rng) -> String {
    let mut g = Gen { r, adts: vec![], traits: vec![], opaques: vec![], out: String::new() };
    let n = 3 + g.r.below(8);
    let (mut na, mut nt, mut ni, mut no, mut nf) = (0, 0, 0, 0, 0);
    // a trait and a struct first so that later items have something to mention
    g.tr(nt);
    nt += 1;
    g.adt(na);
    na += 1;
    for _ in 0..n {
        match g.r.below(10) {
            0 | 1 | 2 => {
                g.adt(na);
                na += 1;
            }
            3 | 4 => {
                g.tr(nt);
                nt += 1;
            }
            5 | 6 | 7 => {
                g.imp(ni);
                ni += 1;
            }
            8 => {
                g.opaque(no);
                no += 1;
            }
            _ => {
                g.fndef(nf);
                nf += 1;
            }
        }
    }
    g.out
}
