//! Minimal JSON value + serializer (no external crates are available offline beyond chalk's own deps).
use std::collections::BTreeMap;
use std::fmt::Write;

#[derive(Clone, Debug, PartialEq)]
pub enum J {
    Null,
    Bool(bool),
    Int(i64),
    Str(String),
    Arr(Vec<J>),
    Obj(BTreeMap<String, J>),
}

impl J {
    pub fn obj() -> J {
        J::Obj(BTreeMap::new())
    }
    pub fn set(mut self, k: &str, v: impl Into<J>) -> J {
        if let J::Obj(m) = &mut self {
            m.insert(k.to_string(), v.into());
        }
        self
    }
    pub fn put(&mut self, k: &str, v: impl Into<J>) {
        if let J::Obj(m) = self {
            m.insert(k.to_string(), v.into());
        }
    }
    pub fn write(&self, out: &mut String) {
        match self {
            J::Null => out.push_str("null"),
            J::Bool(b) => out.push_str(if *b { "true" } else { "false" }),
            J::Int(i) => {
                let _ = write!(out, "{}", i);
            }
            J::Str(s) => esc(s, out),
            J::Arr(a) => {
                out.push('[');
                for (i, x) in a.iter().enumerate() {
                    if i > 0 {
                        out.push(',');
                    }
                    x.write(out);
                }
                out.push(']');
            }
            J::Obj(m) => {
                out.push('{');
                for (i, (k, v)) in m.iter().enumerate() {
                    if i > 0 {
                        out.push(',');
                    }
                    esc(k, out);
                    out.push(':');
                    v.write(out);
                }
                out.push('}');
            }
        }
    }
    pub fn to_string(&self) -> String {
        let mut s = String::new();
        self.write(&mut s);
        s
    }
}

fn esc(s: &str, out: &mut String) {
    out.push('"');
    for c in s.chars() {
        match c {
            '"' => out.push_str("\\\""),
            '\\' => out.push_str("\\\\"),
            '\n' => out.push_str("\\n"),
            '\r' => out.push_str("\\r"),
            '\t' => out.push_str("\\t"),
            c if (c as u32) < 0x20 => {
                let _ = write!(out, "\\u{:04x}", c as u32);
            }
            c => out.push(c),
        }
    }
    out.push('"');
}

impl From<&str> for J {
    fn from(s: &str) -> J {
        J::Str(s.to_string())
    }
}
impl From<String> for J {
    fn from(s: String) -> J {
        J::Str(s)
    }
}
impl From<&String> for J {
    fn from(s: &String) -> J {
        J::Str(s.clone())
    }
}
impl From<bool> for J {
    fn from(b: bool) -> J {
        J::Bool(b)
    }
}
impl From<i64> for J {
    fn from(b: i64) -> J {
        J::Int(b)
    }
}
impl From<u64> for J {
    fn from(b: u64) -> J {
        J::Int(b as i64)
    }
}
impl From<usize> for J {
    fn from(b: usize) -> J {
        J::Int(b as i64)
    }
}
impl From<u32> for J {
    fn from(b: u32) -> J {
        J::Int(b as i64)
    }
}
impl From<Vec<J>> for J {
    fn from(b: Vec<J>) -> J {
        J::Arr(b)
    }
}
impl From<Vec<String>> for J {
    fn from(b: Vec<String>) -> J {
        J::Arr(b.into_iter().map(J::Str).collect())
    }
}
