//! Deterministic PRNG. All randomness flows from VERIF_SEED through here.

#[derive(Clone)]
pub struct Rng(pub u64);

fn splitmix(x: &mut u64) -> u64 {
    *x = x.wrapping_add(0x9E3779B97F4A7C15);
    let mut z = *x;
    z = (z ^ (z >> 30)).wrapping_mul(0xBF58476D1CE4E5B9);
    z = (z ^ (z >> 27)).wrapping_mul(0x94D049BB133111EB);
    z ^ (z >> 31)
}

pub fn hash_str(s: &str) -> u64 {
    // FNV-1a
    let mut h: u64 = 0xcbf29ce484222325;
    for b in s.bytes() {
        h ^= b as u64;
        h = h.wrapping_mul(0x100000001b3);
    }
    h
}

impl Rng {
    /// Stream for case `k` of property `prop` under `seed`.
    pub fn for_case(prop: &str, seed: u64, k: u64) -> Rng {
        let mut x = hash_str(prop) ^ seed.wrapping_mul(0xD6E8FEB86659FD93) ^ k.wrapping_mul(0xA24BAED4963EE407);
        let a = splitmix(&mut x);
        let b = splitmix(&mut x);
        let mut r = Rng(a ^ b.rotate_left(17) | 1);
        for _ in 0..4 {
            r.next();
        }
        r
    }
    pub fn next(&mut self) -> u64 {
        self.0 ^= self.0 << 13;
        self.0 ^= self.0 >> 7;
        self.0 ^= self.0 << 17;
        self.0.wrapping_mul(0x2545F4914F6CDD1D)
    }
    pub fn below(&mut self, n: usize) -> usize {
        if n == 0 {
            return 0;
        }
        (self.next() % (n as u64)) as usize
    }
    pub fn range(&mut self, lo: usize, hi_incl: usize) -> usize {
        lo + self.below(hi_incl - lo + 1)
    }
    pub fn chance(&mut self, pct: usize) -> bool {
        self.below(100) < pct
    }
    pub fn pick<'a, T>(&mut self, v: &'a [T]) -> &'a T {
        &v[self.below(v.len())]
    }
    pub fn shuffle<T>(&mut self, v: &mut [T]) {
        for i in (1..v.len()).rev() {
            let j = self.below(i + 1);
            v.swap(i, j);
        }
    }
}
