//! "Constructor zoo": known-answer programs that push an unknown through every built-in type constructor.
//!
//! ```text
//! impl Foo for PAT[a] {}                                   // one ground fact
//! impl<vars> Bar for PAT[vars] where PAT[vars]: Foo {}     // the answer of a sub-goal fills the unknowns
//! impl<vars> Qux for PAT[vars] where PAT[vars]: Bar {}     // ... through two tables
//! impl Baz for PAT[b] {}                                   // a second ground fact (b == a or not)
//! ```
//! `exists<vars> { PAT[vars]: Bar }` has exactly one solution (vars := a); the expected answer is therefore known
//! without any reference semantics, and it is compared print-free: the answer's substitution applied to the query
//! must be *identical* to the lowered ground goal `PAT[a]: Bar`.
use crate::rng::Rng;

#[derive(Clone, Debug, PartialEq)]
pub enum Z {
    /// ground type leaf (program text)
    A(&'static str),
    /// ground const
    K(u32),
    /// type hole / const hole (index into the pattern's hole list)
    TH(usize),
    KH(usize),
    C(&'static str, Vec<Z>),
}

const CTORS: &[(&str, &[bool])] = &[
    // (name, hole kinds: false = type, true = const)
    ("W", &[false]),
    ("ptrc", &[false]),
    ("ptrm", &[false]),
    ("ref", &[false]),
    ("refm", &[false]),
    ("slice", &[false]),
    ("array", &[false, true]),
    ("tup2", &[false, false]),
    ("tup3", &[false, false, false]),
    ("fnp", &[false, false]),
    ("Arr", &[true]),
    ("P2", &[false, true]),
    ("P3", &[true, false, false]),
];

fn gen_pat(r: &mut Rng, depth: usize, holes: &mut Vec<bool>) -> Z {
    let (name, kinds) = *r.pick(CTORS);
    let args = kinds
        .iter()
        .map(|&is_const| {
            if is_const {
                holes.push(true);
                Z::KH(holes.len() - 1)
            } else if depth < 2 && r.chance(35) {
                gen_pat(r, depth + 1, holes)
            } else {
                holes.push(false);
                Z::TH(holes.len() - 1)
            }
        })
        .collect();
    Z::C(name, args)
}

/// `fill(i)` gives the text of hole `i`.
pub fn text(z: &Z, fill: &dyn Fn(usize) -> String) -> String {
    match z {
        Z::A(s) => s.to_string(),
        Z::K(n) => n.to_string(),
        Z::TH(i) | Z::KH(i) => fill(*i),
        Z::C(n, a) => {
            let t: Vec<String> = a.iter().map(|x| text(x, fill)).collect();
            match *n {
                "W" => format!("W<{}>", t[0]),
                "ptrc" => format!("*const {}", t[0]),
                "ptrm" => format!("*mut {}", t[0]),
                "ref" => format!("&'static {}", t[0]),
                "refm" => format!("&'static mut {}", t[0]),
                "slice" => format!("[{}]", t[0]),
                "array" => format!("[{}; {}]", t[0], t[1]),
                "tup2" => format!("({}, {})", t[0], t[1]),
                "tup3" => format!("({}, {}, {})", t[0], t[1], t[2]),
                "fnp" => format!("fn({}) -> {}", t[0], t[1]),
                "Arr" => format!("Arr<{}>", t[0]),
                "P2" => format!("P2<{}, {}>", t[0], t[1]),
                "P3" => format!("P3<{}, {}, {}>", t[0], t[1], t[2]),
                _ => unreachable!(),
            }
        }
    }
}

#[derive(Clone, Debug)]
pub enum Expect {
    /// `Unique`, and the substitution applied to the query is exactly this ground goal
    Unique(String),
    No,
}

pub struct Zoo {
    pub text: String,
    pub goals: Vec<(String, Expect)>,
    /// number of type/const nodes of the largest ground type that occurs in the program and goals (the solvers' size
    /// limits truncate types from about 10 nodes on)
    pub max_nodes: usize,
}

fn nodes(z: &Z, fill: &dyn Fn(usize) -> usize) -> usize {
    match z {
        Z::A(_) | Z::K(_) => 1,
        Z::TH(i) | Z::KH(i) => fill(*i),
        Z::C(_, a) => 1 + a.iter().map(|x| nodes(x, fill)).sum::<usize>(),
    }
}

fn leaf_nodes(text: &str) -> usize {
    // every identifier, literal, `!`, and every bracket/pointer/fn constructor is one node
    let mut n = 0;
    let mut in_word = false;
    for c in text.chars() {
        if c.is_alphanumeric() || c == '_' {
            if !in_word {
                n += 1;
            }
            in_word = true;
        } else {
            in_word = false;
            if matches!(c, '(' | '[' | '*' | '!' | '&') {
                n += 1;
            }
        }
    }
    n
}

const TY_LEAVES: &[&str] = &["A", "B", "u8", "W<A>", "bool", "(A, B)", "[A]", "*const B", "Arr<5>", "str", "fn(A) -> B", "!"];
const K_LEAVES: &[u32] = &[3, 5, 0, 7];

pub fn gen_zoo(r: &mut Rng) -> Zoo {
    let mut holes: Vec<bool> = vec![];
    let pat = gen_pat(r, 0, &mut holes);
    let n = holes.len();
    let leaf = |r: &mut Rng, is_const: bool| if is_const { r.pick(K_LEAVES).to_string() } else { r.pick(TY_LEAVES).to_string() };
    let a: Vec<String> = holes.iter().map(|&k| leaf(r, k)).collect();
    // b: equal to a (25%) or different in at least one hole
    let mut b = a.clone();
    if !r.chance(25) {
        for _ in 0..1 + r.below(2) {
            let i = r.below(n);
            for _ in 0..8 {
                let x = leaf(r, holes[i]);
                if x != a[i] {
                    b[i] = x;
                    break;
                }
            }
        }
    }
    let same = a == b;
    // which holes are unknowns in the goals (at least one); the others keep a's value
    let mut unknown: Vec<bool> = (0..n).map(|_| r.chance(65)).collect();
    if !unknown.iter().any(|&u| u) {
        let i = r.below(n);
        unknown[i] = true;
    }
    let var = |i: usize| if holes[i] { format!("N{}", i) } else { format!("X{}", i) };
    let all_vars = |i: usize| var(i);
    let decl = |sel: &dyn Fn(usize) -> bool| -> String { (0..n).filter(|&i| sel(i)).map(|i| if holes[i] { format!("const N{}", i) } else { format!("X{}", i) }).collect::<Vec<_>>().join(", ") };
    let pa = text(&pat, &|i| a[i].clone());
    let pb = text(&pat, &|i| b[i].clone());
    let pv = text(&pat, &all_vars);
    let pg = text(&pat, &|i| if unknown[i] { var(i) } else { a[i].clone() });
    let ex = decl(&|i| unknown[i]);
    let mut t = String::new();
    t.push_str("struct A { }\nstruct B { }\nstruct W<T> { }\nstruct Arr<const N> { }\nstruct P2<T, const N> { }\nstruct P3<const N, T, U> { }\n");
    t.push_str("trait Foo { }\ntrait Bar { }\ntrait Baz { }\ntrait Qux { }\n");
    // the order of the impls is part of the workload
    let mut impls = vec![
        format!("impl Foo for {} {{ }}", pa),
        format!("impl<{}> Bar for {} where {}: Foo {{ }}", decl(&|_| true), pv, pv),
        format!("impl<{}> Qux for {} where {}: Bar {{ }}", decl(&|_| true), pv, pv),
        format!("impl Baz for {} {{ }}", pb),
    ];
    r.shuffle(&mut impls);
    for i in impls {
        t.push_str(&i);
        t.push('\n');
    }
    let uq = |tr: &str| Expect::Unique(format!("{}: {}", pa, tr));
    let both = |x: &str, y: &str| Expect::Unique(format!("{}: {}, {}: {}", pa, x, pa, y));
    let mut goals = vec![
        (format!("exists<{}> {{ {}: Bar }}", ex, pg), uq("Bar")),
        (format!("exists<{}> {{ {}: Qux }}", ex, pg), uq("Qux")),
        (format!("exists<{}> {{ {}: Foo }}", ex, pg), uq("Foo")),
        (format!("{}: Qux", pa), uq("Qux")),
        (format!("exists<{}> {{ {}: Foo, {}: Baz }}", ex, pg, pg), if same { both("Foo", "Baz") } else { Expect::No }),
        (format!("exists<{}> {{ {}: Baz, {}: Bar }}", ex, pg, pg), if same { both("Baz", "Bar") } else { Expect::No }),
        (format!("exists<{}> {{ {}: Qux, {}: Bar }}", ex, pg, pg), both("Qux", "Bar")),
    ];
    if !same {
        goals.push((format!("{}: Bar", pb), Expect::No));
        goals.push((format!("{}: Baz", pb), Expect::Unique(format!("{}: Baz", pb))));
    }
    let max_nodes = nodes(&pat, &|i| leaf_nodes(&a[i])).max(nodes(&pat, &|i| leaf_nodes(&b[i])));
    Zoo { text: t, goals, max_nodes }
}
