//! Seeded generators for programs and goals over the mini-IR (basic / coinductive / auto fragments).
use crate::model::*;
use crate::rng::Rng;
use std::collections::BTreeSet;

#[derive(Clone, Debug)]
pub struct GenCfg {
    /// probability (percent) that a where-clause argument is a fresh (possibly larger) term instead of a sub-term
    /// of the impl header
    pub increasing_pct: usize,
    /// probability that a trait is `#[coinductive]`
    pub coinductive_pct: usize,
    /// probability that a trait takes a type parameter
    pub param_trait_pct: usize,
    pub max_impls: usize,
}

impl Default for GenCfg {
    fn default() -> Self {
        GenCfg { increasing_pct: 0, coinductive_pct: 0, param_trait_pct: 25, max_impls: 7 }
    }
}

pub fn gen_ty(r: &mut Rng, prog: &MProgram, leaves: &[MTy], budget: usize) -> MTy {
    if budget <= 1 || r.chance(45) {
        if !leaves.is_empty() && r.chance(50) {
            return r.pick(leaves).clone();
        }
        let nullary: Vec<&MStruct> = prog.structs.iter().filter(|s| s.nparams == 0).collect();
        return MTy::App(r.pick(&nullary).name.clone(), vec![]);
    }
    let st = r.pick(&prog.structs).clone();
    if st.nparams == 0 {
        return MTy::App(st.name, vec![]);
    }
    let mut args = vec![];
    let mut rem = budget - 1;
    for k in 0..st.nparams {
        let b = if k + 1 == st.nparams { rem.max(1) } else { 1 + r.below(rem.max(1)) };
        let b = b.min(rem.max(1));
        args.push(gen_ty(r, prog, leaves, b));
        rem = rem.saturating_sub(args.last().unwrap().size()).max(1);
    }
    MTy::App(st.name, args)
}

fn base_structs(r: &mut Rng, p: &mut MProgram) {
    for n in ["A", "B", "C"].iter().take(2 + r.below(2)) {
        p.structs.push(MStruct { name: n.to_string(), ..Default::default() });
    }
    p.structs.push(MStruct { name: "Vec".into(), nparams: 1, ..Default::default() });
    if r.chance(60) {
        p.structs.push(MStruct { name: "Bx".into(), nparams: 1, ..Default::default() });
    }
    if r.chance(35) {
        p.structs.push(MStruct { name: "Pair".into(), nparams: 2, ..Default::default() });
    }
}

/// One impl for trait `tr` with a random header; where-clauses drawn per cfg.
pub fn gen_impl(r: &mut Rng, p: &MProgram, tr: &MTrait, cfg: &GenCfg) -> MImpl {
    let nv = r.below(3);
    let vars: Vec<MTy> = (0..nv).map(MTy::Var).collect();
    let mut args = vec![];
    for _ in 0..=tr.nparams {
        let b = 1 + r.below(3);
        args.push(gen_ty(r, p, &vars, b));
    }
    // used vars, renumber densely
    let mut used = BTreeSet::new();
    for a in &args {
        a.vars(&mut used);
    }
    let used: Vec<usize> = used.into_iter().collect();
    let ren = |i: usize| MTy::Var(used.iter().position(|&u| u == i).unwrap());
    let args: Vec<MTy> = args.iter().map(|a| a.subst(&ren)).collect();
    let hvars: Vec<MTy> = (0..used.len()).map(MTy::Var).collect();
    let mut subs = vec![];
    for a in &args {
        a.subterms(&mut subs);
    }
    let mut wheres = vec![];
    for _ in 0..r.below(3) {
        // coinductive traits may only depend on coinductive traits (no mixed cycles)
        let cands: Vec<&MTrait> = p.traits.iter().filter(|t| !(tr.coinductive || tr.auto) || t.coinductive || t.auto).collect();
        if cands.is_empty() {
            break;
        }
        let wt = (*r.pick(&cands)).clone();
        let mut wargs = vec![];
        for _ in 0..=wt.nparams {
            if r.chance(cfg.increasing_pct) {
                let b = 2 + r.below(2);
                wargs.push(gen_ty(r, p, &hvars, b));
            } else {
                wargs.push(r.pick(&subs).clone());
            }
        }
        wheres.push(MPred { tr: wt.name.clone(), args: wargs });
    }
    MImpl { nvars: used.len(), head: MPred { tr: tr.name.clone(), args }, wheres, positive: true, ..Default::default() }
}

pub fn gen_program(r: &mut Rng, cfg: &GenCfg) -> MProgram {
    let mut p = MProgram::default();
    base_structs(r, &mut p);
    let ntraits = 2 + r.below(2);
    for i in 0..ntraits {
        let coind = r.chance(cfg.coinductive_pct);
        p.traits.push(MTrait { name: format!("T{}", i), nparams: if r.chance(cfg.param_trait_pct) { 1 } else { 0 }, coinductive: coind, ..Default::default() });
    }
    let nimpls = 2 + r.below(cfg.max_impls.saturating_sub(1).max(1));
    for _ in 0..nimpls {
        let tr = r.pick(&p.traits).clone();
        let im = gen_impl(r, &p, &tr, cfg);
        p.impls.push(im);
    }
    p
}

/// "Multi-answer" programs: a trait with 4-7 impls of which several share an outer shape (`Vec<A>`, `Vec<B>`,
/// `Vec<Bx<C>>`) and one or two do not (`C`, `Pair<A, B>`), optionally guarded by where-clauses on a second trait with
/// a blanket impl over an auto-like trait. Goals with unknowns then have many answers whose anti-unification is
/// non-trivial for a prefix and trivial overall — the situation the aggregation logic has to get right.
/// Transitive closure over a small directed graph (3-4 nodes, random edges, usually with cycles): `Edge` facts and
/// `Path` defined by a base rule plus one step rule per intermediate node (left- or right-recursive). The tables of
/// `Ni: Path<?>` form positive cycles of every length; every answer set is finite and known.
pub fn gen_graph(r: &mut Rng) -> (MProgram, Vec<(MGoal, Vec<usize>)>) {
    let mut p = MProgram::default();
    let n = 3 + r.below(2);
    let node = |i: usize| MTy::nullary(&format!("N{}", i));
    for i in 0..n {
        p.structs.push(MStruct { name: format!("N{}", i), ..Default::default() });
    }
    p.traits.push(MTrait { name: "Edge".into(), nparams: 1, ..Default::default() });
    p.traits.push(MTrait { name: "Path".into(), nparams: 1, ..Default::default() });
    // a cycle through all or most nodes, plus random extra edges
    let mut edges: Vec<(usize, usize)> = vec![];
    let cyc = 2 + r.below(n - 1);
    for i in 0..cyc {
        edges.push((i, (i + 1) % cyc));
    }
    for _ in 0..r.below(4) {
        edges.push((r.below(n), r.below(n)));
    }
    if r.chance(25) {
        edges.remove(0);
    }
    edges.sort();
    edges.dedup();
    r.shuffle(&mut edges);
    for (a, b) in &edges {
        p.impls.push(MImpl { head: MPred::new("Edge", vec![node(*a), node(*b)]), positive: true, ..Default::default() });
    }
    let (x, y) = (MTy::Var(0), MTy::Var(1));
    let mut rules = vec![MImpl { nvars: 2, head: MPred::new("Path", vec![x.clone(), y.clone()]), wheres: vec![MPred::new("Edge", vec![x.clone(), y.clone()])], positive: true, ..Default::default() }];
    let left = r.chance(50);
    for z in 0..n {
        let wheres = if left {
            // X: Path<Z>, Z: Edge<Y>
            vec![MPred::new("Path", vec![x.clone(), node(z)]), MPred::new("Edge", vec![node(z), y.clone()])]
        } else {
            vec![MPred::new("Edge", vec![x.clone(), node(z)]), MPred::new("Path", vec![node(z), y.clone()])]
        };
        rules.push(MImpl { nvars: 2, head: MPred::new("Path", vec![x.clone(), y.clone()]), wheres, positive: true, ..Default::default() });
    }
    r.shuffle(&mut rules);
    p.impls.extend(rules);
    let v = |i: usize| MTy::Var(i);
    let mut goals: Vec<(MGoal, Vec<usize>)> = vec![];
    for i in 0..n {
        goals.push((MGoal::Exists(vec![0], 0, Box::new(MGoal::Pred(MPred::new("Path", vec![node(i), v(0)])))), vec![0]));
    }
    goals.push((MGoal::Exists(vec![0], 0, Box::new(MGoal::Pred(MPred::new("Path", vec![v(0), node(0)])))), vec![0]));
    goals.push((MGoal::Exists(vec![0, 1], 0, Box::new(MGoal::Pred(MPred::new("Path", vec![v(0), v(1)])))), vec![0, 1]));
    goals.push((MGoal::Pred(MPred::new("Path", vec![node(0), node(0)])), vec![]));
    goals.push((MGoal::Exists(vec![0], 0, Box::new(MGoal::And(vec![MGoal::Pred(MPred::new("Path", vec![node(0), v(0)])), MGoal::Pred(MPred::new("Path", vec![v(0), node(0)]))]))), vec![0]));
    goals.push((MGoal::Pred(MPred::new("Path", vec![node(n - 1), node(0)])), vec![]));
    r.shuffle(&mut goals);
    (p, goals)
}

/// The multi-answer fragment or (one time in three) the graph fragment.
pub fn gen_multi_or_graph(r: &mut Rng) -> (MProgram, Vec<(MGoal, Vec<usize>)>) {
    if r.chance(33) {
        gen_graph(r)
    } else {
        gen_multi_answer(r)
    }
}

pub fn gen_multi_answer(r: &mut Rng) -> (MProgram, Vec<(MGoal, Vec<usize>)>) {
    let mut p = MProgram::default();
    for n in ["A", "B", "C", "D"] {
        p.structs.push(MStruct { name: n.into(), ..Default::default() });
    }
    p.structs.push(MStruct { name: "Vec".into(), nparams: 1, ..Default::default() });
    p.structs.push(MStruct { name: "Bx".into(), nparams: 1, ..Default::default() });
    p.structs.push(MStruct { name: "Pair".into(), nparams: 2, ..Default::default() });
    p.traits.push(MTrait { name: "T0".into(), ..Default::default() });
    p.traits.push(MTrait { name: "T1".into(), ..Default::default() });
    p.traits.push(MTrait { name: "T2".into(), nparams: 1, ..Default::default() });
    let leaf = |r: &mut Rng| MTy::nullary(*r.pick(&["A", "B", "C", "D"]));
    let outer = *r.pick(&["Vec", "Bx"]);
    let mut heads: Vec<MTy> = vec![];
    for _ in 0..2 + r.below(3) {
        let inner = if r.chance(25) { MTy::app("Bx", vec![leaf(r)]) } else { leaf(r) };
        heads.push(MTy::app(outer, vec![inner]));
    }
    for _ in 0..1 + r.below(2) {
        heads.push(match r.below(3) {
            0 => leaf(r),
            1 => MTy::app("Pair", vec![leaf(r), leaf(r)]),
            _ => MTy::app(if outer == "Vec" { "Bx" } else { "Vec" }, vec![leaf(r)]),
        });
    }
    heads.dedup();
    // the position of the odd ones among the others decides when the guidance becomes trivial
    r.shuffle(&mut heads);
    for h in &heads {
        let wheres = if r.chance(25) { vec![MPred::new("T1", vec![h.clone()])] } else { vec![] };
        p.impls.push(MImpl { head: MPred::new("T0", vec![h.clone()]), wheres, positive: true, ..Default::default() });
    }
    // T1: some of the heads, some failing candidates
    for h in &heads {
        if r.chance(60) {
            p.impls.push(MImpl { head: MPred::new("T1", vec![h.clone()]), positive: true, ..Default::default() });
        }
    }
    if r.chance(30) {
        p.impls.push(MImpl { nvars: 1, head: MPred::new("T1", vec![MTy::app(outer, vec![MTy::Var(0)])]), positive: true, ..Default::default() });
    }
    // T2<X>: relation with a generic and a specific impl (answers with shared variables)
    if r.chance(60) {
        p.impls.push(MImpl { nvars: 1, head: MPred::new("T2", vec![MTy::app("Vec", vec![MTy::Var(0)]), MTy::Var(0)]), positive: true, ..Default::default() });
        p.impls.push(MImpl { head: MPred::new("T2", vec![MTy::app("Vec", vec![leaf(r)]), leaf(r)]), positive: true, ..Default::default() });
    }
    // a strand that flounders (auto trait on an unknown) and a definite strand that only answers after a few failed
    // attempts: the order in which the solver sees "definite", "ambiguous" and "late definite" strands varies
    if r.chance(50) {
        p.traits.push(MTrait { name: "Au".into(), auto: true, ..Default::default() });
        p.traits.push(MTrait { name: "T3".into(), ..Default::default() });
        p.traits.push(MTrait { name: "Nv".into(), ..Default::default() });
        let odd = if outer == "Vec" { "Bx" } else { "Vec" };
        let amb = MImpl { nvars: 1, head: MPred::new("T0", vec![MTy::app(odd, vec![MTy::Var(0)])]), wheres: vec![MPred::new("Au", vec![MTy::Var(0)])], positive: true, ..Default::default() };
        let late = MImpl { nvars: 1, head: MPred::new("T0", vec![MTy::app(outer, vec![MTy::app("Pair", vec![MTy::Var(0), MTy::Var(0)])])]), wheres: vec![MPred::new("T3", vec![MTy::Var(0)])], positive: true, ..Default::default() };
        // drop impls that overlap with the two templates
        p.impls.retain(|im| !(im.head.tr == "T0" && (im.head.args[0].head() == Some(odd) || matches!(&im.head.args[0], MTy::App(_, a) if a.first().and_then(|x| x.head()) == Some("Pair")))));
        let pos = r.below(p.impls.len() + 1);
        p.impls.insert(pos.min(p.impls.len()), amb);
        if r.chance(80) {
            p.impls.push(late);
            let d = r.below(5);
            let names = ["A", "B", "C", "D"];
            for i in 0..d.min(3) {
                p.impls.push(MImpl { head: MPred::new("T3", vec![MTy::nullary(names[i])]), wheres: vec![MPred::new("Nv", vec![MTy::nullary(names[i])])], positive: true, ..Default::default() });
            }
            p.impls.push(MImpl { head: MPred::new("T3", vec![MTy::nullary(names[d.min(3)])]), positive: true, ..Default::default() });
        }
    }
    // non-linear heads: an impl that only identifies two positions with each other, declared before / between / after
    // impls that fill the same positions differently; a relation that is reflexive by one impl and has one odd pair
    let nonlinear = r.chance(50);
    if nonlinear {
        p.traits.push(MTrait { name: "T4".into(), ..Default::default() });
        p.traits.push(MTrait { name: "T5".into(), nparams: 1, ..Default::default() });
        let mut hs: Vec<(usize, MTy)> = vec![(1, MTy::app("Pair", vec![MTy::Var(0), MTy::Var(0)])), (0, MTy::app("Pair", vec![leaf(r), MTy::nullary("D")])), (0, MTy::app("Pair", vec![MTy::nullary("D"), leaf(r)]))];
        if r.chance(40) {
            hs.push((1, MTy::app("Pair", vec![MTy::app("Vec", vec![MTy::Var(0)]), MTy::Var(0)])));
        }
        if r.chance(30) {
            hs.remove(0);
        }
        r.shuffle(&mut hs);
        for (nv, h) in hs {
            p.impls.push(MImpl { nvars: nv, head: MPred::new("T4", vec![h]), positive: true, ..Default::default() });
        }
        let mut rel = vec![MImpl { nvars: 1, head: MPred::new("T5", vec![MTy::Var(0), MTy::Var(0)]), positive: true, ..Default::default() }, MImpl { head: MPred::new("T5", vec![MTy::nullary("A"), MTy::nullary("B")]), positive: true, ..Default::default() }];
        if r.chance(30) {
            rel.remove(0);
        }
        r.shuffle(&mut rel);
        p.impls.extend(rel);
    }
    // staged inference through the where-clauses of one impl: `T: T6` alone narrows T to `Vec<_>` without deciding it
    // (its own where-clause has two solutions), `T: T8<V>` alone is ambiguous (two impls) but decides V once T is known
    // to be a `Vec<_>`. Written in either order.
    let staged = r.chance(35);
    if staged {
        p.traits.push(MTrait { name: "T6".into(), ..Default::default() });
        p.traits.push(MTrait { name: "T7".into(), ..Default::default() });
        p.traits.push(MTrait { name: "T8".into(), nparams: 1, ..Default::default() });
        p.traits.push(MTrait { name: "T9".into(), nparams: 2, ..Default::default() });
        let (b1, b2) = (MTy::nullary("B"), MTy::nullary("C"));
        p.impls.push(MImpl { head: MPred::new("T7", vec![b1.clone()]), positive: true, ..Default::default() });
        p.impls.push(MImpl { head: MPred::new("T7", vec![b2.clone()]), positive: true, ..Default::default() });
        p.impls.push(MImpl { nvars: 1, head: MPred::new("T6", vec![MTy::app("Vec", vec![MTy::Var(0)])]), wheres: vec![MPred::new("T7", vec![MTy::Var(0)])], positive: true, ..Default::default() });
        let mut sh = vec![MImpl { nvars: 1, head: MPred::new("T8", vec![MTy::app("Vec", vec![MTy::Var(0)]), b1.clone()]), positive: true, ..Default::default() }, MImpl { head: MPred::new("T8", vec![b1.clone(), b2.clone()]), positive: true, ..Default::default() }];
        r.shuffle(&mut sh);
        p.impls.extend(sh);
        let mut wheres = vec![MPred::new("T6", vec![MTy::Var(0)]), MPred::new("T8", vec![MTy::Var(0), MTy::Var(1)])];
        if r.chance(50) {
            wheres.swap(0, 1);
        }
        if r.chance(30) {
            wheres.push(MPred::new("T0", vec![MTy::nullary("D")]));
            let k = r.below(wheres.len());
            let n = wheres.len() - 1;
            wheres.swap(k, n);
        }
        p.impls.push(MImpl { nvars: 2, head: MPred::new("T9", vec![MTy::nullary("D"), MTy::Var(0), MTy::Var(1)]), wheres, positive: true, ..Default::default() });
    }
    let v = |i: usize| MTy::Var(i);
    let mut extra: Vec<(MGoal, Vec<usize>)> = vec![];
    if staged {
        extra.push((MGoal::Exists(vec![0, 1], 0, Box::new(MGoal::Pred(MPred::new("T9", vec![MTy::nullary("D"), v(0), v(1)])))), vec![0, 1]));
        extra.push((MGoal::Exists(vec![0, 1], 0, Box::new(MGoal::And(vec![MGoal::Pred(MPred::new("T6", vec![v(0)])), MGoal::Pred(MPred::new("T8", vec![v(0), v(1)]))]))), vec![0, 1]));
        extra.push((MGoal::Exists(vec![0, 1], 0, Box::new(MGoal::And(vec![MGoal::Pred(MPred::new("T8", vec![v(0), v(1)])), MGoal::Pred(MPred::new("T6", vec![v(0)]))]))), vec![0, 1]));
    }
    if nonlinear {
        let pair = |a: MTy, b: MTy| MTy::app("Pair", vec![a, b]);
        let fnot = |vs: Vec<usize>, g: MGoal| MGoal::Not(Box::new(MGoal::Exists(vs, u32::MAX, Box::new(g))));
        extra.push((MGoal::Exists(vec![0, 1], 0, Box::new(MGoal::Pred(MPred::new("T4", vec![pair(v(0), v(1))])))), vec![0, 1]));
        extra.push((MGoal::Exists(vec![0, 1], 0, Box::new(MGoal::Pred(MPred::new("T5", vec![v(0), v(1)])))), vec![0, 1]));
        extra.push((fnot(vec![7], MGoal::Pred(MPred::new("T4", vec![pair(v(7), v(7))]))), vec![]));
        extra.push((fnot(vec![7, 8], MGoal::Pred(MPred::new("T4", vec![pair(v(7), v(8))]))), vec![]));
        extra.push((fnot(vec![7], MGoal::Pred(MPred::new("T5", vec![v(7), v(7)]))), vec![]));
        extra.push((fnot(vec![7], MGoal::Pred(MPred::new("T4", vec![pair(v(7), MTy::app("Bx", vec![v(7)]))]))), vec![]));
        extra.push((MGoal::Exists(vec![0], 0, Box::new(MGoal::Pred(MPred::new("T4", vec![pair(v(0), MTy::nullary("D"))])))), vec![0]));
        extra.push((MGoal::Pred(MPred::new("T4", vec![pair(MTy::nullary("A"), MTy::nullary("A"))])), vec![]));
    }
    let pool: Vec<(MGoal, Vec<usize>)> = vec![
        (MGoal::Exists(vec![0], 0, Box::new(MGoal::Pred(MPred::new("T0", vec![v(0)])))), vec![0]),
        (MGoal::Exists(vec![0], 0, Box::new(MGoal::And(vec![MGoal::Pred(MPred::new("T0", vec![v(0)])), MGoal::Pred(MPred::new("T1", vec![v(0)]))]))), vec![0]),
        (MGoal::Exists(vec![0], 0, Box::new(MGoal::And(vec![MGoal::Pred(MPred::new("T1", vec![v(0)])), MGoal::Pred(MPred::new("T0", vec![v(0)]))]))), vec![0]),
        (MGoal::Exists(vec![0], 0, Box::new(MGoal::Pred(MPred::new("T0", vec![MTy::app(outer, vec![v(0)])])))), vec![0]),
        (MGoal::Exists(vec![0, 1], 0, Box::new(MGoal::Pred(MPred::new("T2", vec![v(0), v(1)])))), vec![0, 1]),
        (MGoal::Exists(vec![0, 1], 0, Box::new(MGoal::And(vec![MGoal::Pred(MPred::new("T0", vec![v(0)])), MGoal::Pred(MPred::new("T0", vec![v(1)]))]))), vec![0, 1]),
        (MGoal::Exists(vec![0], 0, Box::new(MGoal::Pred(MPred::new("T1", vec![v(0)])))), vec![0]),
        (MGoal::Pred(MPred::new("T0", vec![heads[0].clone()])), vec![]),
        (MGoal::Forall(1, 1, Box::new(MGoal::Exists(vec![0], 1, Box::new(MGoal::Pred(MPred::new("T0", vec![v(0)])))))), vec![0]),
        (MGoal::Exists(vec![0], 0, Box::new(MGoal::Pred(MPred::new("T2", vec![v(0), leaf(r)])))), vec![0]),
    ];
    // the non-linear goals first, then as many of the general ones as the caller takes
    let mut pool = pool;
    r.shuffle(&mut pool);
    r.shuffle(&mut extra);
    extra.extend(pool);
    (p, extra)
}

/// "Propositional" programs: every impl is on the single nullary struct `S`, so the program is a random
/// propositional Horn program over 3-5 atoms `S: Ti` with dense (mutual) recursion, several clauses per atom and
/// facts. All traits inductive, or all #[coinductive] (no mixed cycles). The search graphs of both solvers then
/// contain cycles whose head is only decided in a later iteration, members that finish before the head, and goals
/// outside the cycle that read provisional results.
pub fn gen_propositional(r: &mut Rng, coinductive: bool) -> MProgram {
    let mut p = MProgram::default();
    p.structs.push(MStruct { name: "S".into(), ..Default::default() });
    p.structs.push(MStruct { name: "A".into(), ..Default::default() });
    p.structs.push(MStruct { name: "Vec".into(), nparams: 1, ..Default::default() });
    let nt = 3 + r.below(3);
    for i in 0..nt {
        p.traits.push(MTrait { name: format!("T{}", i), coinductive, ..Default::default() });
    }
    let s = MTy::nullary("S");
    let cl = |h: usize, body: &[usize]| MImpl { head: MPred::new(&format!("T{}", h), vec![MTy::nullary("S")]), wheres: body.iter().map(|b| MPred::new(&format!("T{}", b), vec![MTy::nullary("S")])).collect(), positive: true, ..Default::default() };
    if r.chance(55) {
        // shapes in which a goal outside a cycle reads a cycle member's provisional result: a cycle H <-> B, a reader
        // C :- B that H itself also depends on, and a base case for H that may only count in a later iteration
        // H = T0, B = T1, C = T2 (the goal generator poses every ordered pair of them)
        let (h, b, c) = (0, 1, 2);
        let d = if nt > 3 { Some(3) } else { None };
        let mut cls = vec![cl(h, &[b]), cl(b, &[h]), cl(c, &[b])];
        if r.chance(80) {
            cls.push(cl(h, &[c]));
        }
        match (r.below(4), d) {
            (0, _) => {}
            (1, Some(d)) => {
                cls.push(cl(h, &[d]));
                if r.chance(70) {
                    cls.push(cl(d, &[]));
                }
            }
            _ => cls.push(cl(h, &[])),
        }
        if let (Some(d), true) = (d, r.chance(30)) {
            cls.push(cl(b, &[h, d]));
        }
        for _ in 0..r.below(3) {
            let head = r.below(nt);
            let body: Vec<usize> = (0..r.below(3)).map(|_| r.below(nt)).collect();
            cls.push(cl(head, &body));
        }
        r.shuffle(&mut cls);
        p.impls = cls;
        let _ = s;
        return p;
    }
    let ncl = nt + r.below(nt + 2);
    for _ in 0..ncl {
        let head = r.below(nt);
        let nb = r.below(4);
        let body: Vec<usize> = (0..nb).map(|_| r.below(nt)).collect();
        p.impls.push(cl(head, &body));
    }
    let _ = s;
    p
}

/// Goals for a propositional program: single atoms and conjunctions (in both orders), optionally negated atoms.
pub fn gen_propositional_goals(r: &mut Rng, p: &MProgram, n: usize, allow_not: bool) -> Vec<MGoal> {
    let s = MTy::nullary("S");
    let atom = |r: &mut Rng| MGoal::Pred(MPred::new(&r.pick(&p.traits).name, vec![s.clone()]));
    let t = |i: usize| MGoal::Pred(MPred::new(&format!("T{}", i), vec![s.clone()]));
    // every ordered pair of the first three atoms first (conjunct order decides which goal runs inside whose iteration)
    let mut fixed: Vec<MGoal> = vec![];
    for (a, b) in [(2, 0), (0, 2), (1, 0), (0, 1), (2, 1), (1, 2)] {
        fixed.push(MGoal::And(vec![t(a), t(b)]));
    }
    fixed.push(MGoal::And(vec![t(1), t(2), t(0)]));
    r.shuffle(&mut fixed);
    let nfixed = (n * 2 / 3).min(fixed.len());
    let mut out: Vec<MGoal> = fixed.into_iter().take(nfixed).collect();
    let rest: Vec<MGoal> = (0..n - nfixed)
        .map(|i| match i % 4 {
            0 => atom(r),
            1 => MGoal::And(vec![atom(r), atom(r)]),
            2 => MGoal::And(vec![atom(r), atom(r), atom(r)]),
            _ => {
                let hyp = |r: &mut Rng| MPred::new(&r.pick(&p.traits).name, vec![s.clone()]);
                match r.below(4) {
                    0 if allow_not => MGoal::And(vec![atom(r), MGoal::Not(Box::new(atom(r)))]),
                    1 => {
                        // a hypothesis on one conjunct only, before or after its sibling
                        let mut v = vec![atom(r), MGoal::If(vec![hyp(r)], Box::new(atom(r)))];
                        if r.chance(50) {
                            v.swap(0, 1);
                        }
                        MGoal::And(v)
                    }
                    2 if allow_not => {
                        let mut v = vec![MGoal::Not(Box::new(atom(r))), MGoal::If(vec![hyp(r)], Box::new(atom(r)))];
                        if r.chance(50) {
                            v.swap(0, 1);
                        }
                        MGoal::And(v)
                    }
                    _ => atom(r),
                }
            }
        })
        .collect();
    out.extend(rest);
    out
}

#[derive(Clone, Debug, Default)]
pub struct GoalCfg {
    pub closed_only: bool,
    /// allow `not { closed atom }` (only generated where no forall/if is in scope)
    pub allow_not: bool,
    pub allow_eq: bool,
    /// force at least one exists variable
    pub need_exists: bool,
}

/// Bias a predicate towards impl headers so that Unique/Ambig/None all occur.
fn pred_from_header(r: &mut Rng, p: &MProgram, leaves: &[MTy]) -> Option<MPred> {
    if p.impls.is_empty() {
        return None;
    }
    let im = r.pick(&p.impls).clone();
    // instantiate impl variables with leaves / small types, or generalise a sub-term to a leaf
    let inst: Vec<MTy> = (0..im.nvars)
        .map(|_| {
            let b = 1 + r.below(2);
            gen_ty(r, p, leaves, b)
        })
        .collect();
    let mut pr = im.head.subst(&|i| inst[i].clone());
    if !leaves.is_empty() && r.chance(40) {
        // generalise: replace one argument (or its first sub-argument) by a leaf
        let k = r.below(pr.args.len());
        let leaf = r.pick(leaves).clone();
        match &mut pr.args[k] {
            MTy::App(_, a) if !a.is_empty() && r.chance(60) => {
                let j = r.below(a.len());
                a[j] = leaf;
            }
            other => *other = leaf,
        }
    }
    Some(pr)
}

/// Returns goal and the list of exists var ids in peel order.
pub fn gen_goal(r: &mut Rng, p: &MProgram, cfg: &GoalCfg) -> (MGoal, Vec<usize>) {
    let mut level = 0u32;
    let mut phs: Vec<MTy> = vec![];
    let mut exs: Vec<usize> = vec![];
    let mut next_var = 0usize;
    #[derive(Clone)]
    enum Q {
        Fa(u32, u32),
        Ex(Vec<usize>, u32),
        If(Vec<MPred>),
    }
    let mut qs: Vec<Q> = vec![];
    let nq = r.below(3) + if cfg.need_exists { 1 } else { 0 };
    let mut any_forall = false;
    for qi in 0..nq {
        let want_ex = cfg.need_exists && qi + 1 == nq && exs.is_empty();
        if !want_ex && r.chance(50) {
            level += 1;
            let n = 1 + r.below(2) as u32;
            for i in 0..n {
                phs.push(MTy::Ph(level, i));
            }
            qs.push(Q::Fa(level, n));
            any_forall = true;
        } else if !cfg.closed_only {
            let n = 1 + r.below(2);
            let ids: Vec<usize> = (0..n)
                .map(|_| {
                    let v = next_var;
                    next_var += 1;
                    v
                })
                .collect();
            exs.extend(ids.iter().cloned());
            qs.push(Q::Ex(ids, level));
        }
    }
    let mut leaves: Vec<MTy> = phs.clone();
    leaves.extend(exs.iter().map(|&v| MTy::Var(v)));
    let mk_pred = |r: &mut Rng, leaves: &[MTy]| -> MPred {
        if r.chance(55) {
            if let Some(pr) = pred_from_header(r, p, leaves) {
                return pr;
            }
        }
        let tr = r.pick(&p.traits).clone();
        let args = (0..=tr.nparams)
            .map(|_| {
                let b = 1 + r.below(3);
                gen_ty(r, p, leaves, b)
            })
            .collect();
        MPred { tr: tr.name, args }
    };
    // hypotheses (only over placeholders/concrete types)
    let mut any_if = false;
    if !phs.is_empty() && r.chance(50) {
        let h = (0..1 + r.below(2)).map(|_| mk_pred(r, &phs)).collect();
        qs.push(Q::If(h));
        any_if = true;
    }
    let mut atoms = vec![];
    for _ in 0..1 + r.below(2) {
        if cfg.allow_eq && !exs.is_empty() && r.chance(20) {
            let a = gen_ty(r, p, &leaves, 2);
            let b = gen_ty(r, p, &leaves, 2);
            atoms.push(MGoal::Eq(a, b));
        } else if cfg.allow_not && !any_forall && !any_if && r.chance(15) {
            atoms.push(MGoal::Not(Box::new(MGoal::Pred(mk_pred(r, &[])))));
        } else {
            atoms.push(MGoal::Pred(mk_pred(r, &leaves)));
        }
    }
    // a conjunct may carry its own hypothesis: `G1, if (H) { G2 }` — H must be visible to G2 only
    for a in atoms.iter_mut() {
        if matches!(a, MGoal::Pred(_)) && r.chance(12) {
            let h = mk_pred(r, &phs);
            let inner = std::mem::replace(a, MGoal::And(vec![]));
            *a = MGoal::If(vec![h], Box::new(inner));
        }
    }
    if atoms.len() > 1 {
        r.shuffle(&mut atoms);
    }
    let mut g = if atoms.len() == 1 { atoms.pop().unwrap() } else { MGoal::And(atoms) };
    for q in qs.into_iter().rev() {
        g = match q {
            Q::Fa(u, n) => MGoal::Forall(u, n, Box::new(g)),
            Q::Ex(ids, l) => MGoal::Exists(ids, l, Box::new(g)),
            Q::If(h) => MGoal::If(h, Box::new(g)),
        };
    }
    // drop exists vars that do not occur (chalk would still bind them; keep the list in sync with binders used)
    (g, exs)
}

/// Coinductive / auto fragment: structs with (possibly recursive) fields, one or two auto traits, coinductive
/// traits whose impls depend only on coinductive traits, explicit positive / negative impls on constructors.
pub fn gen_auto_program(r: &mut Rng) -> MProgram {
    let mut p = MProgram::default();
    let nst = 3 + r.below(4);
    let names: Vec<String> = (0..nst).map(|i| format!("S{}", i)).collect();
    let arity: Vec<usize> = (0..nst).map(|_| if r.chance(30) { 1 } else { 0 }).collect();
    for i in 0..nst {
        let nf = r.below(4);
        let mut fields = vec![];
        for _ in 0..nf {
            // field type: another struct (maybe applied), own param, or builtin wrapper
            let j = r.below(nst);
            let inner = |r: &mut Rng| -> MTy {
                let j2 = r.below(nst);
                if arity[i] == 1 && r.chance(40) {
                    MTy::Var(0)
                } else if arity[j2] == 0 {
                    MTy::nullary(&names[j2])
                } else {
                    let k = r.below(nst);
                    let a = if arity[i] == 1 && r.chance(50) { MTy::Var(0) } else if arity[k] == 0 { MTy::nullary(&names[k]) } else { MTy::nullary("u32") };
                    MTy::app(&names[j2], vec![a])
                }
            };
            let base = if arity[j] == 0 { MTy::nullary(&names[j]) } else { MTy::app(&names[j], vec![inner(r)]) };
            let t = match r.below(10) {
                0 => MTy::app("@tuple", vec![base, inner(r)]),
                1 => MTy::app("@ref", vec![base]),
                2 => MTy::app("@array", vec![base]),
                3 => MTy::nullary(*r.pick(SCALARS)),
                4 if arity[i] == 1 => MTy::Var(0),
                _ => base,
            };
            fields.push(t);
        }
        let variants = if r.chance(25) && !fields.is_empty() {
            // split into 2 variants
            let k = r.below(fields.len() + 1);
            vec![k, fields.len() - k]
        } else {
            vec![]
        };
        p.structs.push(MStruct { name: names[i].clone(), nparams: arity[i], fields, variants, ..Default::default() });
    }
    // chalk#248 shapes, generated systematically for 45% of the programs: a cycle K0 -> K1 (-> K2) -> K0 through
    // fields, optionally with one member that fails (a field of type `Bad`, which has a negative impl), structs
    // outside the cycle that read cycle members (O*), and cycle members that read those outside structs
    // (K0 -> O0 -> K1). Field orders are shuffled: the solvers visit fields in different orders.
    let with_cycle = r.chance(45);
    let mut cyc: Option<(usize, Option<usize>, usize)> = None;
    if with_cycle {
        let n = 2 + r.below(2);
        let failing = if r.chance(65) { Some(r.below(n)) } else { None };
        let nout = 1 + r.below(2);
        cyc = Some((n, failing, nout));
        for i in 0..n {
            let mut fields = vec![MTy::nullary(&format!("K{}", (i + 1) % n))];
            if failing == Some(i) {
                fields.push(MTy::nullary("Bad"));
            }
            for o in 0..nout {
                if r.chance(45) {
                    fields.push(MTy::nullary(&format!("O{}", o)));
                }
            }
            if r.chance(25) {
                fields.push(MTy::nullary(*r.pick(SCALARS)));
            }
            r.shuffle(&mut fields);
            p.structs.push(MStruct { name: format!("K{}", i), fields, ..Default::default() });
        }
        for o in 0..nout {
            let mut fields = vec![MTy::nullary(&format!("K{}", r.below(n)))];
            if r.chance(30) {
                fields.push(MTy::nullary(&format!("K{}", r.below(n))));
            }
            if o > 0 && r.chance(40) {
                fields.push(MTy::nullary("O0"));
            }
            r.shuffle(&mut fields);
            p.structs.push(MStruct { name: format!("O{}", o), fields, ..Default::default() });
        }
        p.structs.push(MStruct { name: "Bad".into(), ..Default::default() });
    }
    let nauto = 1 + r.below(2);
    for i in 0..nauto {
        p.traits.push(MTrait { name: format!("Au{}", i), auto: true, ..Default::default() });
    }
    if with_cycle {
        for i in 0..nauto {
            p.impls.push(MImpl { head: MPred::new(&format!("Au{}", i), vec![MTy::nullary("Bad")]), positive: false, ..Default::default() });
        }
    }
    if r.chance(50) {
        p.traits.push(MTrait { name: "Co0".into(), coinductive: true, ..Default::default() });
    }
    // explicit impls
    for tr in p.traits.clone() {
        for i in 0..nst {
            if tr.auto {
                if r.chance(18) {
                    // negative impl on the constructor
                    let self_ty = if arity[i] == 0 { MTy::nullary(&names[i]) } else { MTy::app(&names[i], vec![MTy::Var(0)]) };
                    p.impls.push(MImpl { nvars: arity[i], head: MPred::new(&tr.name, vec![self_ty]), positive: false, ..Default::default() });
                } else if r.chance(12) {
                    // explicit positive impl, possibly conditional on the parameter
                    let self_ty = if arity[i] == 0 { MTy::nullary(&names[i]) } else { MTy::app(&names[i], vec![MTy::Var(0)]) };
                    let wheres = if arity[i] == 1 && r.chance(50) { vec![MPred::new(&tr.name, vec![MTy::Var(0)])] } else { vec![] };
                    p.impls.push(MImpl { nvars: arity[i], head: MPred::new(&tr.name, vec![self_ty]), wheres, positive: true, ..Default::default() });
                }
            } else if tr.coinductive && r.chance(60) {
                // coinductive trait: impl for Si where (some other Sj: Co0)
                let self_ty = if arity[i] == 0 { MTy::nullary(&names[i]) } else { MTy::app(&names[i], vec![MTy::Var(0)]) };
                let mut wheres = vec![];
                for _ in 0..r.below(3) {
                    let j = r.below(nst);
                    let t = if arity[j] == 0 {
                        MTy::nullary(&names[j])
                    } else if arity[i] == 1 && r.chance(50) {
                        MTy::app(&names[j], vec![MTy::Var(0)])
                    } else {
                        let k = (0..nst).find(|&k| arity[k] == 0).unwrap_or(0);
                        if arity[k] == 0 {
                            MTy::app(&names[j], vec![MTy::nullary(&names[k])])
                        } else {
                            MTy::app(&names[j], vec![MTy::nullary("u32")])
                        }
                    };
                    wheres.push(MPred::new(&tr.name, vec![t]));
                }
                if arity[i] == 1 && r.chance(40) {
                    wheres.push(MPred::new(&tr.name, vec![MTy::Var(0)]));
                }
                p.impls.push(MImpl { nvars: arity[i], head: MPred::new(&tr.name, vec![self_ty]), wheres, positive: true, ..Default::default() });
            }
        }
    }
    // the same cycle shapes through a #[coinductive] trait's impls
    if let Some((n, failing, nout)) = cyc {
        if p.traits.iter().any(|t| t.name == "Co0") {
            for i in 0..n {
                let mut wheres = vec![MPred::new("Co0", vec![MTy::nullary(&format!("K{}", (i + 1) % n))])];
                if failing == Some(i) {
                    wheres.push(MPred::new("Co0", vec![MTy::nullary("Bad")]));
                }
                for o in 0..nout {
                    if r.chance(45) {
                        wheres.push(MPred::new("Co0", vec![MTy::nullary(&format!("O{}", o))]));
                    }
                }
                r.shuffle(&mut wheres);
                p.impls.push(MImpl { head: MPred::new("Co0", vec![MTy::nullary(&format!("K{}", i))]), wheres, positive: true, ..Default::default() });
            }
            for o in 0..nout {
                let mut wheres = vec![MPred::new("Co0", vec![MTy::nullary(&format!("K{}", r.below(n)))])];
                if r.chance(30) {
                    wheres.push(MPred::new("Co0", vec![MTy::nullary(&format!("K{}", r.below(n)))]));
                }
                p.impls.push(MImpl { head: MPred::new("Co0", vec![MTy::nullary(&format!("O{}", o))]), wheres, positive: true, ..Default::default() });
            }
        }
    }
    p
}

/// Concrete (ground) type over the auto program's structs, depth-bounded.
pub fn gen_ground_ty(r: &mut Rng, p: &MProgram, depth: usize) -> MTy {
    let st = r.pick(&p.structs).clone();
    if st.nparams == 0 {
        return MTy::nullary(&st.name);
    }
    let args = (0..st.nparams)
        .map(|_| {
            if depth == 0 || r.chance(40) {
                let nullary: Vec<&MStruct> = p.structs.iter().filter(|s| s.nparams == 0).collect();
                if nullary.is_empty() || r.chance(20) {
                    MTy::nullary(*r.pick(SCALARS))
                } else {
                    MTy::nullary(&r.pick(&nullary).name)
                }
            } else {
                gen_ground_ty(r, p, depth - 1)
            }
        })
        .collect();
    MTy::App(st.name, args)
}
