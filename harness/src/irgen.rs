//! Mirrored term type over chalk_ir types for the inference-table properties (C14–C16), its conversion to chalk_ir,
//! and an independent Robinson unifier with kinds and universes (the oracle).
use crate::drive::I;
use crate::rng::Rng;
use chalk_integration::interner::{ChalkIr, RawId};
use chalk_ir::cast::Cast;
use chalk_ir::*;
use std::collections::BTreeMap;

#[derive(Clone, Copy, PartialEq, Eq, Debug, PartialOrd, Ord)]
pub enum K {
    Gen,
    Int,
    Float,
    Lt,
    Const,
}

#[derive(Clone, PartialEq, Eq, Debug)]
pub enum L {
    Static,
    Ph(usize, usize),
    Var(usize),
}

#[derive(Clone, PartialEq, Eq, Debug)]
pub enum C {
    Val(u32),
    Ph(usize, usize),
    Var(usize),
}

#[derive(Clone, PartialEq, Eq, Debug)]
pub enum T {
    App(u32, Vec<T>),
    Tuple(Vec<T>),
    Slice(Box<T>),
    Ref(bool, L, Box<T>),
    Raw(bool, Box<T>),
    Arr(Box<T>, C),
    /// 0 = i32, 1 = u8, 2 = bool, 3 = f64
    Scalar(u8),
    Ph(usize, usize),
    Var(usize),
}

pub fn arity(c: u32) -> usize {
    match c {
        0 | 1 => 0,
        2 | 3 => 1,
        _ => 2,
    }
}

#[derive(Debug)]
pub struct InvDb;
impl UnificationDatabase<I> for InvDb {
    fn fn_def_variance(&self, _: FnDefId<I>) -> Variances<I> {
        Variances::empty(ChalkIr)
    }
    fn adt_variance(&self, id: AdtId<I>) -> Variances<I> {
        Variances::from_iter(ChalkIr, std::iter::repeat(Variance::Invariant).take(arity(id.0.index)))
    }
}

pub fn usize_ty() -> Ty<I> {
    TyKind::Scalar(Scalar::Uint(UintTy::Usize)).intern(ChalkIr)
}

pub fn l_to_chalk(l: &L, vars: &[(InferenceVar, K)]) -> Lifetime<I> {
    let i = ChalkIr;
    match l {
        L::Static => LifetimeData::Static.intern(i),
        L::Ph(u, k) => LifetimeData::Placeholder(PlaceholderIndex { ui: UniverseIndex { counter: *u }, idx: *k }).intern(i),
        L::Var(v) => vars[*v].0.to_lifetime(i),
    }
}

pub fn c_to_chalk(c: &C, vars: &[(InferenceVar, K)]) -> Const<I> {
    let i = ChalkIr;
    match c {
        C::Val(n) => ConstData { ty: usize_ty(), value: ConstValue::Concrete(ConcreteConst { interned: *n }) }.intern(i),
        C::Ph(u, k) => PlaceholderIndex { ui: UniverseIndex { counter: *u }, idx: *k }.to_const(i, usize_ty()),
        C::Var(v) => vars[*v].0.to_const(i, usize_ty()),
    }
}

pub fn to_chalk(t: &T, vars: &[(InferenceVar, K)]) -> Ty<I> {
    let i = ChalkIr;
    let m = |b: bool| if b { Mutability::Mut } else { Mutability::Not };
    match t {
        T::App(c, a) => TyKind::Adt(AdtId(RawId { index: *c }), Substitution::from_iter(i, a.iter().map(|x| to_chalk(x, vars).cast::<GenericArg<I>>(i)))).intern(i),
        T::Tuple(a) => TyKind::Tuple(a.len(), Substitution::from_iter(i, a.iter().map(|x| to_chalk(x, vars).cast::<GenericArg<I>>(i)))).intern(i),
        T::Slice(x) => TyKind::Slice(to_chalk(x, vars)).intern(i),
        T::Ref(mu, l, x) => TyKind::Ref(m(*mu), l_to_chalk(l, vars), to_chalk(x, vars)).intern(i),
        T::Raw(mu, x) => TyKind::Raw(m(*mu), to_chalk(x, vars)).intern(i),
        T::Arr(x, c) => TyKind::Array(to_chalk(x, vars), c_to_chalk(c, vars)).intern(i),
        T::Scalar(0) => TyKind::Scalar(Scalar::Int(IntTy::I32)).intern(i),
        T::Scalar(1) => TyKind::Scalar(Scalar::Uint(UintTy::U8)).intern(i),
        T::Scalar(2) => TyKind::Scalar(Scalar::Bool).intern(i),
        T::Scalar(_) => TyKind::Scalar(Scalar::Float(FloatTy::F64)).intern(i),
        T::Ph(u, k) => TyKind::Placeholder(PlaceholderIndex { ui: UniverseIndex { counter: *u }, idx: *k }).intern(i),
        T::Var(v) => vars[*v].0.to_ty(
            i,
            match vars[*v].1 {
                K::Int => TyVariableKind::Integer,
                K::Float => TyVariableKind::Float,
                _ => TyVariableKind::General,
            },
        ),
    }
}

pub struct TermCfg {
    pub lifetimes: bool,
    pub consts: bool,
    pub max_ph_universe: usize,
}

/// Random term over the type variables in `tyvars` (indices into the var table), lifetime vars `ltvars`, const vars `cvars`.
pub fn gen_term(r: &mut Rng, kinds: &[K], d: usize, cfg: &TermCfg) -> T {
    let tyvars: Vec<usize> = kinds.iter().enumerate().filter(|(_, k)| matches!(k, K::Gen | K::Int | K::Float)).map(|(i, _)| i).collect();
    let ltvars: Vec<usize> = kinds.iter().enumerate().filter(|(_, k)| **k == K::Lt).map(|(i, _)| i).collect();
    let cvars: Vec<usize> = kinds.iter().enumerate().filter(|(_, k)| **k == K::Const).map(|(i, _)| i).collect();
    gen_t(r, &tyvars, &ltvars, &cvars, d, cfg)
}

fn gen_l(r: &mut Rng, ltvars: &[usize], cfg: &TermCfg) -> L {
    if !cfg.lifetimes {
        return L::Static;
    }
    match r.below(4) {
        0 if !ltvars.is_empty() => L::Var(*r.pick(ltvars)),
        1 => L::Ph(1 + r.below(cfg.max_ph_universe.max(1)), r.below(2)),
        _ => L::Static,
    }
}

fn gen_t(r: &mut Rng, tyvars: &[usize], ltvars: &[usize], cvars: &[usize], d: usize, cfg: &TermCfg) -> T {
    match r.below(16) {
        0..=3 if !tyvars.is_empty() => T::Var(*r.pick(tyvars)),
        4 => T::Ph(1 + r.below(cfg.max_ph_universe.max(1)), r.below(2)),
        5 => T::Scalar(r.below(4) as u8),
        _ if d == 0 => T::App(r.below(2) as u32, vec![]),
        6 => T::Tuple((0..r.below(3)).map(|_| gen_t(r, tyvars, ltvars, cvars, d - 1, cfg)).collect()),
        7 => T::Slice(Box::new(gen_t(r, tyvars, ltvars, cvars, d - 1, cfg))),
        8 => {
            let l = gen_l(r, ltvars, cfg);
            T::Ref(r.chance(30), l, Box::new(gen_t(r, tyvars, ltvars, cvars, d - 1, cfg)))
        }
        9 => T::Raw(r.chance(40), Box::new(gen_t(r, tyvars, ltvars, cvars, d - 1, cfg))),
        10 if cfg.consts => {
            let c = match r.below(3) {
                0 if !cvars.is_empty() => C::Var(*r.pick(cvars)),
                1 => C::Ph(1 + r.below(cfg.max_ph_universe.max(1)), r.below(2)),
                _ => C::Val(r.below(3) as u32),
            };
            T::Arr(Box::new(gen_t(r, tyvars, ltvars, cvars, d - 1, cfg)), c)
        }
        _ => {
            let c = r.below(6) as u32;
            T::App(c, (0..arity(c)).map(|_| gen_t(r, tyvars, ltvars, cvars, d - 1, cfg)).collect())
        }
    }
}

// ---------------------------------------------------------------------------------------------
// oracle: Robinson unification with occurs check, kind restriction and universes (types only; lifetimes ignored)

#[derive(Clone)]
pub struct O {
    /// const variable bindings
    pub cbind: BTreeMap<usize, C>,
    pub bind: BTreeMap<usize, T>,
    pub parent: Vec<usize>,
    pub uni: Vec<usize>,
    pub kind: Vec<K>,
}

impl O {
    pub fn find(&self, mut v: usize) -> usize {
        while self.parent[v] != v {
            v = self.parent[v];
        }
        v
    }
    pub fn walk(&self, t: &T) -> T {
        match t {
            T::Var(v) => {
                let r = self.find(*v);
                match self.bind.get(&r) {
                    Some(b) => self.walk(b),
                    None => T::Var(r),
                }
            }
            _ => t.clone(),
        }
    }
    fn occurs_and_demote(&mut self, r: usize, u: usize, t: &T) -> bool {
        match self.walk(t) {
            T::Var(x) => {
                if x == r {
                    return false;
                }
                if self.uni[x] > u {
                    self.uni[x] = u;
                }
                true
            }
            T::Ph(pu, _) => pu <= u,
            T::Scalar(_) => true,
            T::App(_, a) | T::Tuple(a) => a.iter().all(|x| self.occurs_and_demote(r, u, x)),
            T::Slice(x) | T::Raw(_, x) => self.occurs_and_demote(r, u, &x),
            T::Ref(_, l, x) => {
                // lifetimes never make unification fail, but an unknown lifetime is demoted
                if let L::Var(lv) = l {
                    let lr = self.find(lv);
                    if self.uni[lr] > u {
                        self.uni[lr] = u;
                    }
                }
                self.occurs_and_demote(r, u, &x)
            }
            T::Arr(x, c) => {
                match self.walk_c(&c) {
                    C::Var(cv) => {
                        if self.uni[cv] > u {
                            self.uni[cv] = u;
                        }
                    }
                    C::Ph(pu, _) => {
                        if pu > u {
                            return false;
                        }
                    }
                    C::Val(_) => {}
                }
                self.occurs_and_demote(r, u, &x)
            }
        }
    }
    pub fn walk_c(&self, c: &C) -> C {
        match c {
            C::Var(v) => {
                let r = self.find(*v);
                match self.cbind.get(&r) {
                    Some(b) => self.walk_c(b),
                    None => C::Var(r),
                }
            }
            _ => c.clone(),
        }
    }
    pub fn unify_c(&mut self, a: &C, b: &C) -> bool {
        let a = self.walk_c(a);
        let b = self.walk_c(b);
        match (&a, &b) {
            (C::Var(x), C::Var(y)) => {
                if x != y {
                    let u = self.uni[*x].min(self.uni[*y]);
                    self.parent[*y] = *x;
                    self.uni[*x] = u;
                }
                true
            }
            (C::Var(x), c) | (c, C::Var(x)) => {
                if let C::Ph(pu, _) = c {
                    if *pu > self.uni[*x] {
                        return false;
                    }
                }
                self.cbind.insert(*x, c.clone());
                true
            }
            (C::Val(x), C::Val(y)) => x == y,
            (C::Ph(u1, k1), C::Ph(u2, k2)) => u1 == u2 && k1 == k2,
            _ => false,
        }
    }
    /// fully resolved term
    pub fn deep(&self, t: &T) -> T {
        match self.walk(t) {
            T::App(c, a) => T::App(c, a.iter().map(|x| self.deep(x)).collect()),
            T::Tuple(a) => T::Tuple(a.iter().map(|x| self.deep(x)).collect()),
            T::Slice(x) => T::Slice(Box::new(self.deep(&x))),
            T::Ref(m, l, x) => T::Ref(m, l, Box::new(self.deep(&x))),
            T::Raw(m, x) => T::Raw(m, Box::new(self.deep(&x))),
            T::Arr(x, c) => T::Arr(Box::new(self.deep(&x)), self.walk_c(&c)),
            other => other,
        }
    }
    pub fn unify(&mut self, a: &T, b: &T) -> bool {
        let a = self.walk(a);
        let b = self.walk(b);
        match (&a, &b) {
            (T::Var(x), T::Var(y)) => {
                if x == y {
                    return true;
                }
                let (kx, ky) = (self.kind[*x], self.kind[*y]);
                // int and float unknowns never unify with each other
                if (kx == K::Int && ky == K::Float) || (kx == K::Float && ky == K::Int) {
                    return false;
                }
                let u = self.uni[*x].min(self.uni[*y]);
                let k = if kx != K::Gen { kx } else { ky };
                self.parent[*y] = *x;
                self.uni[*x] = u;
                self.kind[*x] = k;
                true
            }
            (T::Var(x), t) | (t, T::Var(x)) => {
                match self.kind[*x] {
                    K::Int => {
                        if !matches!(t, T::Scalar(0) | T::Scalar(1)) {
                            return false;
                        }
                    }
                    K::Float => {
                        if !matches!(t, T::Scalar(3)) {
                            return false;
                        }
                    }
                    _ => {}
                }
                let u = self.uni[*x];
                if !self.occurs_and_demote(*x, u, t) {
                    return false;
                }
                self.bind.insert(*x, t.clone());
                true
            }
            (T::App(c1, a1), T::App(c2, a2)) => c1 == c2 && a1.len() == a2.len() && a1.iter().zip(a2).all(|(x, y)| self.unify(x, y)),
            (T::Tuple(a1), T::Tuple(a2)) => a1.len() == a2.len() && a1.iter().zip(a2).all(|(x, y)| self.unify(x, y)),
            (T::Slice(x), T::Slice(y)) => self.unify(x, y),
            (T::Ref(m1, _, x), T::Ref(m2, _, y)) => m1 == m2 && self.unify(x, y),
            (T::Raw(m1, x), T::Raw(m2, y)) => m1 == m2 && self.unify(x, y),
            (T::Arr(x, c1), T::Arr(y, c2)) => self.unify(x, y) && self.unify_c(c1, c2),
            (T::Scalar(x), T::Scalar(y)) => x == y,
            (T::Ph(u1, k1), T::Ph(u2, k2)) => u1 == u2 && k1 == k2,
            _ => false,
        }
    }
    /// canonical description of the type variables `tyvars`: first-occurrence numbering, lifetimes erased
    pub fn canon(&self, tyvars: &[usize]) -> String {
        let mut map: Vec<usize> = vec![];
        let mut binders: Vec<String> = vec![];
        fn go(o: &O, t: &T, map: &mut Vec<usize>, binders: &mut Vec<String>) -> String {
            match o.walk(t) {
                T::Var(r) => {
                    let idx = match map.iter().position(|x| *x == r) {
                        Some(i) => i,
                        None => {
                            map.push(r);
                            binders.push(match o.kind[r] {
                                K::Int => "Int".to_string(),
                                K::Float => "Float".to_string(),
                                _ => format!("Gen@U{}", o.uni[r]),
                            });
                            map.len() - 1
                        }
                    };
                    format!("^{}", idx)
                }
                T::Ph(u, k) => format!("!{}_{}", u, k),
                T::Scalar(x) => format!("s{}", x),
                T::App(c, a) => format!("C{}<{}>", c, a.iter().map(|x| go(o, x, map, binders)).collect::<Vec<_>>().join(",")),
                T::Tuple(a) => format!("({})", a.iter().map(|x| go(o, x, map, binders)).collect::<Vec<_>>().join(",")),
                T::Slice(x) => format!("[{}]", go(o, &x, map, binders)),
                T::Ref(m, _, x) => format!("&{}{}", if m { "mut " } else { "" }, go(o, &x, map, binders)),
                T::Raw(m, x) => format!("*{}{}", if m { "mut " } else { "const " }, go(o, &x, map, binders)),
                T::Arr(x, c) => {
                    let xs = go(o, &x, map, binders);
                    let cs = match o.walk_c(&c) {
                        C::Val(n) => format!("{}", n),
                        C::Ph(u, k) => format!("!{}_{}", u, k),
                        C::Var(r) => {
                            let idx = match map.iter().position(|x| *x == r) {
                                Some(i) => i,
                                None => {
                                    map.push(r);
                                    binders.push(format!("Const@U{}", o.uni[r]));
                                    map.len() - 1
                                }
                            };
                            format!("^{}", idx)
                        }
                    };
                    format!("[{};{}]", xs, cs)
                }
            }
        }
        let body: Vec<String> = tyvars.iter().map(|v| go(self, &T::Var(*v), &mut map, &mut binders)).collect();
        format!("[{}] for[{}]", body.join("; "), binders.join(","))
    }
}

/// The same description computed from the chalk table (on a clone): canonicalize the list of variables, erase
/// lifetimes, renumber type binders by first occurrence in our own walk.
pub fn chalk_canon(table: &chalk_solve::infer::InferenceTable<I>, vars: &[(InferenceVar, K)], tyvars: &[usize]) -> String {
    let i = ChalkIr;
    let mut t = table.clone();
    let list: Vec<Ty<I>> = tyvars.iter().map(|v| to_chalk(&T::Var(*v), vars)).collect();
    let subst = Substitution::from_iter(i, list.iter().map(|t| t.clone().cast::<GenericArg<I>>(i)));
    let c = t.canonicalize(i, subst).quantified;
    let mut map: Vec<usize> = vec![];
    let mut binders: Vec<String> = vec![];
    fn scalar(s: &Scalar) -> String {
        match s {
            Scalar::Int(_) => "s0".into(),
            Scalar::Uint(_) => "s1".into(),
            Scalar::Bool => "s2".into(),
            Scalar::Float(_) => "s3".into(),
            _ => "s?".into(),
        }
    }
    fn go(ty: &Ty<I>, kinds: &CanonicalVarKinds<I>, map: &mut Vec<usize>, binders: &mut Vec<String>) -> String {
        let i = ChalkIr;
        let args = |s: &Substitution<I>, map: &mut Vec<usize>, binders: &mut Vec<String>| s.iter(i).map(|a| go(a.assert_ty_ref(i), kinds, map, binders)).collect::<Vec<_>>().join(",");
        match ty.kind(i) {
            TyKind::BoundVar(b) => {
                let idx = match map.iter().position(|x| *x == b.index) {
                    Some(k) => k,
                    None => {
                        map.push(b.index);
                        let k = &kinds.as_slice(i)[b.index];
                        binders.push(match &k.kind {
                            VariableKind::Ty(TyVariableKind::Integer) => "Int".to_string(),
                            VariableKind::Ty(TyVariableKind::Float) => "Float".to_string(),
                            VariableKind::Ty(TyVariableKind::General) => format!("Gen@U{}", k.skip_kind().counter),
                            other => format!("?{:?}", other),
                        });
                        map.len() - 1
                    }
                };
                format!("^{}", idx)
            }
            TyKind::Placeholder(p) => format!("!{}_{}", p.ui.counter, p.idx),
            TyKind::Scalar(s) => scalar(s),
            TyKind::Adt(id, s) => format!("C{}<{}>", id.0.index, args(s, map, binders)),
            TyKind::Tuple(_, s) => format!("({})", args(s, map, binders)),
            TyKind::Slice(x) => format!("[{}]", go(x, kinds, map, binders)),
            TyKind::Ref(m, _, x) => format!("&{}{}", if *m == Mutability::Mut { "mut " } else { "" }, go(x, kinds, map, binders)),
            TyKind::Raw(m, x) => format!("*{}{}", if *m == Mutability::Mut { "mut " } else { "const " }, go(x, kinds, map, binders)),
            TyKind::Array(x, c) => {
                let xs = go(x, kinds, map, binders);
                let cs = match &c.data(i).value {
                    ConstValue::Concrete(cc) => format!("{}", cc.interned),
                    ConstValue::Placeholder(p) => format!("!{}_{}", p.ui.counter, p.idx),
                    ConstValue::BoundVar(b) => {
                        let idx = match map.iter().position(|x| *x == b.index) {
                            Some(k) => k,
                            None => {
                                map.push(b.index);
                                binders.push(format!("Const@U{}", kinds.as_slice(i)[b.index].skip_kind().counter));
                                map.len() - 1
                            }
                        };
                        format!("^{}", idx)
                    }
                    ConstValue::InferenceVar(v) => format!("?infer{:?}", v),
                };
                format!("[{};{}]", xs, cs)
            }
            other => format!("?{:?}", other),
        }
    }
    let body: Vec<String> = c.value.iter(i).map(|a| go(a.assert_ty_ref(i), &c.binders, &mut map, &mut binders)).collect();
    format!("[{}] for[{}]", body.join("; "), binders.join(","))
}

/// Complete fingerprint of a table's observable state (C15): canonical form of *all* variables (lifetimes and
/// binder universes included) plus the next fresh variable and universe.
pub fn fingerprint(table: &chalk_solve::infer::InferenceTable<I>, vars: &[(InferenceVar, K)]) -> String {
    let i = ChalkIr;
    let mut t = table.clone();
    let list: Vec<GenericArg<I>> = vars
        .iter()
        .enumerate()
        .map(|(v, (iv, k))| match k {
            K::Lt => iv.to_lifetime(i).cast(i),
            K::Const => iv.to_const(i, usize_ty()).cast(i),
            _ => to_chalk(&T::Var(v), vars).cast(i),
        })
        .collect();
    let subst = Substitution::from_iter(i, list);
    let c = t.canonicalize(i, subst).quantified;
    let next_var = t.new_variable(UniverseIndex::root());
    let next_uni = t.new_universe();
    format!("{:?} | next_var={:?} next_universe={:?}", c, next_var, next_uni)
}
