//! Judging a translated solver answer against the reference model (DESIGN §2.2 table).
use crate::drive::MAnswer;
use crate::model::*;
use std::collections::BTreeMap;

pub struct Verdict {
    pub sound_checked: bool,
    pub complete_checked: bool,
    /// number of definitely-true ground solutions found within the universe
    pub true_solutions: usize,
}

pub const ENUM_CAP: usize = 40_000;

/// Is ground assignment `asg` an instance of the answer substitution `m` whose own variables (ids >= 1000) live in
/// universes `us`?
pub fn is_instance(m: &BTreeMap<usize, MTy>, us: &[u32], asg: &BTreeMap<usize, MTy>) -> bool {
    let mut b = BTreeMap::new();
    m.iter().all(|(v, pat)| match asg.get(v) {
        Some(t) => match_ty(pat, t, &mut b),
        None => true,
    }) && b.iter().all(|(k, t)| *k >= 1000 && (*k - 1000) < us.len() && t.max_ph_universe() <= us[*k - 1000])
}

/// Err(description) when the answer is refuted by a definite model verdict.
pub fn check(sem: &mut Sem, uni: &Universe, goal: &MGoal, ex: &[(usize, u32)], ans: &MAnswer) -> Result<Verdict, String> {
    let body = strip_exists(goal);
    let cands: Vec<Vec<MTy>> = ex.iter().map(|(_, l)| uni.terms.iter().filter(|t| t.max_ph_universe() <= *l).cloned().collect()).collect();
    let mut v = Verdict { sound_checked: false, complete_checked: false, true_solutions: 0 };
    let (m, us, is_unique) = match ans {
        MAnswer::Unique(m, us) => (Some(m), us.clone(), true),
        MAnswer::Definite(m, us) => (Some(m), us.clone(), false),
        _ => (None, vec![], false),
    };
    let mut err: Option<String> = None;
    // completeness / None check: every definitely-true ground solution must be an instance of the answer
    if matches!(ans, MAnswer::None | MAnswer::Unique(..) | MAnswer::Definite(..)) {
        let total: usize = cands.iter().map(|c| c.len()).product();
        if total <= ENUM_CAP {
            v.complete_checked = true;
            let mut nsol = 0;
            let mut f = |cur: &[MTy]| -> bool {
                let asg: BTreeMap<usize, MTy> = ex.iter().zip(cur).map(|((v, _), t)| (*v, t.clone())).collect();
                if sem.eval(uni, &mut vec![], &body, &asg) == Tri::True {
                    nsol += 1;
                    match m {
                        None => {
                            err = Some(format!("answer is 'No possible solution' but the ground assignment {} makes the goal true", show_asg(&asg)));
                            return false;
                        }
                        Some(m) => {
                            if !is_instance(m, &us, &asg) {
                                err = Some(format!("true ground solution {} is not an instance of the definite answer {}", show_asg(&asg), show_asg(m)));
                                return false;
                            }
                        }
                    }
                }
                true
            };
            if cands.is_empty() {
                f(&[]);
            } else {
                assignments(&cands, &mut f);
            }
            v.true_solutions = nsol;
        }
    }
    if let Some(e) = err {
        return Err(e);
    }
    // soundness of Unique: no in-bound ground instance may be definitely false
    if is_unique {
        let m = m.unwrap();
        for (var, l) in ex {
            if let Some(t) = m.get(var) {
                if t.max_ph_universe() > *l {
                    return Err(format!("answer assigns V{} a placeholder outside its universe: {}", var, ty_text(t)));
                }
            }
        }
        let acands: Vec<Vec<MTy>> = us.iter().map(|u| uni.terms.iter().filter(|t| t.max_ph_universe() <= *u).cloned().collect()).collect();
        let total: usize = acands.iter().map(|c| c.len()).product();
        if total <= ENUM_CAP {
            v.sound_checked = true;
            let max_size = sem.atom_max;
            let mut f = |inst: &[MTy]| -> bool {
                let s = |i: usize| if i >= 1000 && i - 1000 < inst.len() { inst[i - 1000].clone() } else { MTy::Var(i) };
                let asg: BTreeMap<usize, MTy> = ex.iter().map(|(v, _)| (*v, m.get(v).map(|t| t.subst(&s)).unwrap_or_else(|| uni.terms[0].clone()))).collect();
                if asg.values().any(|t| t.size() > max_size || !t.is_ground()) {
                    return true;
                }
                if sem.eval(uni, &mut vec![], &body, &asg) == Tri::False {
                    err = Some(format!("Unique answer {} has the definitely false instance {}", show_asg(m), show_asg(&asg)));
                    return false;
                }
                true
            };
            if acands.is_empty() {
                f(&[]);
            } else {
                assignments(&acands, &mut f);
            }
        }
    }
    if let Some(e) = err {
        return Err(e);
    }
    Ok(v)
}

pub fn show_asg(m: &BTreeMap<usize, MTy>) -> String {
    let parts: Vec<String> = m.iter().map(|(k, t)| format!("V{} := {}", k, ty_text(t))).collect();
    format!("[{}]", parts.join(", "))
}

/// All definitely-true ground solutions within the universe (None when the space is too large to enumerate).
pub fn true_solutions(sem: &mut Sem, uni: &Universe, goal: &MGoal, ex: &[(usize, u32)]) -> Option<Vec<BTreeMap<usize, MTy>>> {
    let body = strip_exists(goal);
    let cands: Vec<Vec<MTy>> = ex.iter().map(|(_, l)| uni.terms.iter().filter(|t| t.max_ph_universe() <= *l).cloned().collect()).collect();
    let total: usize = cands.iter().map(|c| c.len()).product();
    if total > ENUM_CAP {
        return None;
    }
    let mut sols = vec![];
    let mut f = |cur: &[MTy]| -> bool {
        let asg: BTreeMap<usize, MTy> = ex.iter().zip(cur).map(|((v, _), t)| (*v, t.clone())).collect();
        if sem.eval(uni, &mut vec![], &body, &asg) == Tri::True {
            sols.push(asg);
        }
        true
    };
    if cands.is_empty() {
        f(&[]);
    } else {
        assignments(&cands, &mut f);
    }
    Some(sols)
}

/// Soundness of one definite answer substitution: Ok(true) = checked and no in-bound ground instance is definitely
/// false; Ok(false) = too many instances to enumerate; Err = refuted.
pub fn sound_instances(sem: &mut Sem, uni: &Universe, goal: &MGoal, ex: &[(usize, u32)], m: &BTreeMap<usize, MTy>, us: &[u32]) -> Result<bool, String> {
    let body = strip_exists(goal);
    for (var, l) in ex {
        if let Some(t) = m.get(var) {
            if t.max_ph_universe() > *l {
                return Err(format!("answer assigns V{} a placeholder outside its universe: {}", var, ty_text(t)));
            }
        }
    }
    let acands: Vec<Vec<MTy>> = us.iter().map(|u| uni.terms.iter().filter(|t| t.max_ph_universe() <= *u).cloned().collect()).collect();
    let total: usize = acands.iter().map(|c| c.len()).product();
    if total > ENUM_CAP {
        return Ok(false);
    }
    let max_size = sem.atom_max;
    let mut err = None;
    let mut f = |inst: &[MTy]| -> bool {
        let s = |i: usize| if i >= 1000 && i - 1000 < inst.len() { inst[i - 1000].clone() } else { MTy::Var(i) };
        let asg: BTreeMap<usize, MTy> = ex.iter().map(|(v, _)| (*v, m.get(v).map(|t| t.subst(&s)).unwrap_or_else(|| uni.terms[0].clone()))).collect();
        if asg.values().any(|t| t.size() > max_size || !t.is_ground()) {
            return true;
        }
        if sem.eval(uni, &mut vec![], &body, &asg) == Tri::False {
            err = Some(format!("answer {} has the definitely false instance {}", show_asg(m), show_asg(&asg)));
            return false;
        }
        true
    };
    if acands.is_empty() {
        f(&[]);
    } else {
        assignments(&acands, &mut f);
    }
    match err {
        Some(e) => Err(e),
        None => Ok(true),
    }
}
