//! Mini-IR owned by the harness, its printer to `.chalk` syntax, and the reference semantics:
//! ground Horn-clause semantics over a bounded Herbrand universe, three-valued.
//!
//! The model is written from the *statement's* semantics (impls are Horn clauses, inductive = LFP,
//! coinductive/auto = GFP, hypotheses = FromEnv facts closed under supertraits / where-clauses) and never looks
//! at chalk's clause lowering.
use std::collections::{BTreeMap, BTreeSet, HashMap};
use std::fmt;

#[derive(Clone, PartialEq, Eq, Hash, PartialOrd, Ord, Debug)]
pub enum MTy {
    /// Type constructor application. Names starting with `@` are built-in structural constructors
    /// (`@tuple`, `@ref`, `@refmut`, `@slice`, `@array`, `@ptr`, `@ptrmut`, `@fn`, `@str`, `@never`);
    /// scalar names (`u32`, `bool`, ...) are nullary.
    App(String, Vec<MTy>),
    /// Universally quantified placeholder constant; (universe level, index)
    Ph(u32, u32),
    /// Variable (impl parameter / existential / answer variable)
    Var(usize),
}

pub const SCALARS: &[&str] = &["u8", "u32", "i32", "bool", "f64", "char", "usize", "i64"];

impl MTy {
    pub fn nullary(n: &str) -> MTy {
        MTy::App(n.to_string(), vec![])
    }
    pub fn app(n: &str, a: Vec<MTy>) -> MTy {
        MTy::App(n.to_string(), a)
    }
    pub fn size(&self) -> usize {
        match self {
            MTy::App(_, a) => 1 + a.iter().map(|t| t.size()).sum::<usize>(),
            _ => 1,
        }
    }
    pub fn depth(&self) -> usize {
        match self {
            MTy::App(_, a) => 1 + a.iter().map(|t| t.depth()).max().unwrap_or(0),
            _ => 1,
        }
    }
    pub fn is_ground(&self) -> bool {
        match self {
            MTy::App(_, a) => a.iter().all(|t| t.is_ground()),
            MTy::Ph(..) => true,
            MTy::Var(_) => false,
        }
    }
    pub fn subst(&self, s: &dyn Fn(usize) -> MTy) -> MTy {
        match self {
            MTy::App(n, a) => MTy::App(n.clone(), a.iter().map(|t| t.subst(s)).collect()),
            MTy::Ph(..) => self.clone(),
            MTy::Var(i) => s(*i),
        }
    }
    pub fn vars(&self, out: &mut BTreeSet<usize>) {
        match self {
            MTy::App(_, a) => a.iter().for_each(|t| t.vars(out)),
            MTy::Var(i) => {
                out.insert(*i);
            }
            _ => {}
        }
    }
    pub fn max_ph_universe(&self) -> u32 {
        match self {
            MTy::App(_, a) => a.iter().map(|t| t.max_ph_universe()).max().unwrap_or(0),
            MTy::Ph(u, _) => *u,
            MTy::Var(_) => 0,
        }
    }
    pub fn subterms(&self, out: &mut Vec<MTy>) {
        out.push(self.clone());
        if let MTy::App(_, a) = self {
            for x in a {
                x.subterms(out);
            }
        }
    }
    pub fn head(&self) -> Option<&str> {
        match self {
            MTy::App(n, _) => Some(n.as_str()),
            _ => None,
        }
    }
}

/// First-order matching of pattern (with Vars) against a ground term.
pub fn match_ty(pat: &MTy, t: &MTy, b: &mut BTreeMap<usize, MTy>) -> bool {
    match (pat, t) {
        (MTy::Var(i), _) => match b.get(i) {
            Some(x) => x == t,
            None => {
                b.insert(*i, t.clone());
                true
            }
        },
        (MTy::App(n1, a1), MTy::App(n2, a2)) => {
            n1 == n2 && a1.len() == a2.len() && a1.iter().zip(a2).all(|(p, t)| match_ty(p, t, b))
        }
        (MTy::Ph(u1, i1), MTy::Ph(u2, i2)) => u1 == u2 && i1 == i2,
        _ => false,
    }
}

/// Syntactic unification of two terms with disjoint variable name spaces already ensured by the caller.
pub fn unify_ty(a: &MTy, b: &MTy, s: &mut BTreeMap<usize, MTy>) -> bool {
    fn walk(t: &MTy, s: &BTreeMap<usize, MTy>) -> MTy {
        match t {
            MTy::Var(i) => match s.get(i) {
                Some(x) => walk(x, s),
                None => t.clone(),
            },
            _ => t.clone(),
        }
    }
    fn occurs(v: usize, t: &MTy, s: &BTreeMap<usize, MTy>) -> bool {
        match walk(t, s) {
            MTy::Var(i) => i == v,
            MTy::App(_, a) => a.iter().any(|x| occurs(v, x, s)),
            MTy::Ph(..) => false,
        }
    }
    let a = walk(a, s);
    let b = walk(b, s);
    match (&a, &b) {
        (MTy::Var(i), MTy::Var(j)) if i == j => true,
        (MTy::Var(i), t) | (t, MTy::Var(i)) => {
            if occurs(*i, t, s) {
                return false;
            }
            s.insert(*i, t.clone());
            true
        }
        (MTy::App(n1, a1), MTy::App(n2, a2)) => n1 == n2 && a1.len() == a2.len() && a1.iter().zip(a2).all(|(x, y)| unify_ty(x, y, s)),
        (MTy::Ph(u1, i1), MTy::Ph(u2, i2)) => u1 == u2 && i1 == i2,
        _ => false,
    }
}

pub fn resolve(t: &MTy, s: &BTreeMap<usize, MTy>) -> MTy {
    match t {
        MTy::Var(i) => match s.get(i) {
            Some(x) => resolve(x, s),
            None => t.clone(),
        },
        MTy::App(n, a) => MTy::App(n.clone(), a.iter().map(|x| resolve(x, s)).collect()),
        _ => t.clone(),
    }
}

#[derive(Clone, PartialEq, Eq, Hash, PartialOrd, Ord, Debug, Default)]
pub struct MPred {
    pub tr: String,
    /// args[0] is Self
    pub args: Vec<MTy>,
}

impl MPred {
    pub fn new(tr: &str, args: Vec<MTy>) -> MPred {
        MPred { tr: tr.to_string(), args }
    }
    pub fn subst(&self, s: &dyn Fn(usize) -> MTy) -> MPred {
        MPred { tr: self.tr.clone(), args: self.args.iter().map(|t| t.subst(s)).collect() }
    }
    pub fn is_ground(&self) -> bool {
        self.args.iter().all(|t| t.is_ground())
    }
    pub fn size(&self) -> usize {
        self.args.iter().map(|t| t.size()).max().unwrap_or(0)
    }
    pub fn vars(&self, out: &mut BTreeSet<usize>) {
        self.args.iter().for_each(|a| a.vars(out));
    }
}

#[derive(Clone, Debug, Default)]
pub struct MStruct {
    pub name: String,
    pub nparams: usize,
    /// field types over Var(0..nparams); for enums: all variant fields concatenated
    pub fields: Vec<MTy>,
    /// for enums: number of fields per variant (empty => struct)
    pub variants: Vec<usize>,
    pub wheres: Vec<MPred>,
    pub upstream: bool,
    pub fundamental: bool,
    pub phantom: bool,
}

#[derive(Clone, Debug, Default)]
pub struct MTrait {
    pub name: String,
    /// number of parameters besides Self
    pub nparams: usize,
    pub coinductive: bool,
    pub auto: bool,
    pub marker: bool,
    pub upstream: bool,
    pub fundamental: bool,
    /// `#[lang(..)]` name, e.g. "sized", "copy", "clone"
    pub lang: Option<String>,
    /// where-clauses of the trait over Var(0)=Self, Var(i)=param i
    pub supers: Vec<MPred>,
    /// names of associated types (no generics)
    pub assoc: Vec<String>,
}

#[derive(Clone, Debug, Default)]
pub struct MImpl {
    pub nvars: usize,
    pub head: MPred,
    pub wheres: Vec<MPred>,
    pub positive: bool,
    pub upstream: bool,
    /// associated type values (name, value over impl vars; may contain projections encoded as
    /// App("@proj:Trait:Name", [self, params..]))
    pub assoc_vals: Vec<(String, MTy)>,
    /// extra where-clause text outside the model's vocabulary (e.g. an associated-type binding on a closed type) that
    /// the generator has established to be *true* in the program; printed, ignored by the reference semantics
    pub extra_where: Option<String>,
}

#[derive(Clone, Debug, Default)]
pub struct MProgram {
    pub structs: Vec<MStruct>,
    pub traits: Vec<MTrait>,
    pub impls: Vec<MImpl>,
    /// items that are printed but are no part of the model: impls whose (closed) where-clauses the generator has
    /// established to be *false*, so they can never apply
    pub extra_items: Vec<String>,
}

impl MProgram {
    pub fn tr(&self, name: &str) -> &MTrait {
        self.traits.iter().find(|t| t.name == name).unwrap_or_else(|| panic!("model: unknown trait {}", name))
    }
    pub fn st(&self, name: &str) -> Option<&MStruct> {
        self.structs.iter().find(|s| s.name == name)
    }
    /// All where-clauses only mention sub-terms of the header (=> every derivation stays within the goal's size).
    pub fn non_increasing(&self) -> bool {
        self.impls.iter().all(|im| {
            let mut subs = vec![];
            for a in &im.head.args {
                a.subterms(&mut subs);
            }
            im.wheres.iter().all(|w| w.args.iter().all(|t| subs.contains(t)))
        })
    }
}

#[derive(Clone, Debug)]
pub enum MGoal {
    Pred(MPred),
    Eq(MTy, MTy),
    And(Vec<MGoal>),
    Not(Box<MGoal>),
    /// forall binding `n` placeholders at universe level `u` (Ph(u, 0..n))
    Forall(u32, u32, Box<MGoal>),
    /// exists binding variables with given ids; each var may see universes <= level
    Exists(Vec<usize>, u32, Box<MGoal>),
    If(Vec<MPred>, Box<MGoal>),
}

// ---------------------------------------------------------------------------------------------
// pretty printing to chalk syntax

pub fn var_name(i: usize) -> String {
    format!("V{}", i)
}
pub fn ph_name(u: u32, i: u32) -> String {
    format!("P{}_{}", u, i)
}

pub struct TyDisp<'a>(pub &'a MTy);
impl<'a> fmt::Display for TyDisp<'a> {
    fn fmt(&self, f: &mut fmt::Formatter<'_>) -> fmt::Result {
        let list = |f: &mut fmt::Formatter<'_>, a: &[MTy]| -> fmt::Result {
            for (i, t) in a.iter().enumerate() {
                if i > 0 {
                    write!(f, ", ")?;
                }
                write!(f, "{}", TyDisp(t))?;
            }
            Ok(())
        };
        match self.0 {
            MTy::App(n, a) if n.starts_with('@') => match n.as_str() {
                "@tuple" => {
                    write!(f, "(")?;
                    list(f, a)?;
                    if a.len() == 1 {
                        write!(f, ",")?;
                    }
                    write!(f, ")")
                }
                "@ref" => write!(f, "&'static {}", TyDisp(&a[0])),
                "@refmut" => write!(f, "&'static mut {}", TyDisp(&a[0])),
                "@slice" => write!(f, "[{}]", TyDisp(&a[0])),
                "@array" => write!(f, "[{}; 3]", TyDisp(&a[0])),
                "@ptr" => write!(f, "*const {}", TyDisp(&a[0])),
                "@ptrmut" => write!(f, "*mut {}", TyDisp(&a[0])),
                "@str" => write!(f, "str"),
                "@never" => write!(f, "!"),
                "@fn" => {
                    write!(f, "fn(")?;
                    list(f, &a[..a.len() - 1])?;
                    write!(f, ") -> {}", TyDisp(&a[a.len() - 1]))
                }
                other => {
                    if let Some(rest) = other.strip_prefix("@dyn:") {
                        write!(f, "dyn {} + 'static", rest)
                    } else if let Some(rest) = other.strip_prefix("@proj:") {
                        // @proj:Trait:Name  args = [self, trait params..]
                        let mut it = rest.split(':');
                        let tr = it.next().unwrap();
                        let nm = it.next().unwrap();
                        write!(f, "<{} as {}", TyDisp(&a[0]), tr)?;
                        if a.len() > 1 {
                            write!(f, "<")?;
                            list(f, &a[1..])?;
                            write!(f, ">")?;
                        }
                        write!(f, ">::{}", nm)
                    } else {
                        panic!("unknown builtin ctor {}", other)
                    }
                }
            },
            MTy::App(n, a) => {
                write!(f, "{}", n)?;
                // naming convention: a struct called `Lt..` / `Cn..` / `Lc..` declares a lifetime / a const / both before its
                // type parameters (the model itself only knows the type parameters)
                let lead = lead_args(n);
                if !a.is_empty() || !lead.is_empty() {
                    write!(f, "<{}", lead)?;
                    if !a.is_empty() && !lead.is_empty() {
                        write!(f, ", ")?;
                    }
                    list(f, a)?;
                    write!(f, ">")?;
                }
                Ok(())
            }
            MTy::Ph(u, i) => write!(f, "{}", ph_name(*u, *i)),
            MTy::Var(i) => write!(f, "{}", var_name(*i)),
        }
    }
}

pub fn ty_text(t: &MTy) -> String {
    TyDisp(t).to_string()
}

pub const FROM_ENV_TY: &str = "@FromEnvTy";

pub fn pred_text(p: &MPred) -> String {
    if p.tr == FROM_ENV_TY {
        return format!("FromEnv({})", TyDisp(&p.args[0]));
    }
    let mut s = format!("{}: {}", TyDisp(&p.args[0]), p.tr);
    if p.args.len() > 1 {
        s.push('<');
        for (i, t) in p.args[1..].iter().enumerate() {
            if i > 0 {
                s.push_str(", ");
            }
            s.push_str(&TyDisp(t).to_string());
        }
        s.push('>');
    }
    s
}

/// Arguments for the leading non-type parameters implied by a struct's name (see `TyDisp`).
pub fn lead_args(name: &str) -> &'static str {
    if name.starts_with("Lt") {
        "'static"
    } else if name.starts_with("Cn") {
        "3"
    } else if name.starts_with("Lc") {
        "'static, 3"
    } else {
        ""
    }
}

fn lead_params(name: &str) -> &'static str {
    if name.starts_with("Lt") {
        "'a"
    } else if name.starts_with("Cn") {
        "const N"
    } else if name.starts_with("Lc") {
        "'a, const N"
    } else {
        ""
    }
}

fn struct_generics(name: &str, n: usize) -> String {
    let lead = lead_params(name);
    if lead.is_empty() {
        return generics(n, 0);
    }
    let mut parts = vec![lead.to_string()];
    parts.extend((0..n).map(var_name));
    format!("<{}>", parts.join(", "))
}

fn generics(n: usize, from: usize) -> String {
    if n == 0 {
        String::new()
    } else {
        format!("<{}>", (from..from + n).map(var_name).collect::<Vec<_>>().join(", "))
    }
}

pub fn struct_text(st: &MStruct) -> String {
    let mut attrs = String::new();
    if st.upstream {
        attrs.push_str("#[upstream] ");
    }
    if st.fundamental {
        attrs.push_str("#[fundamental] ");
    }
    if st.phantom {
        attrs.push_str("#[phantom_data] ");
    }
    let wh = if st.wheres.is_empty() { String::new() } else { format!(" where {}", st.wheres.iter().map(pred_text).collect::<Vec<_>>().join(", ")) };
    if st.variants.is_empty() {
        let fields: Vec<String> = st.fields.iter().enumerate().map(|(i, t)| format!("f{}: {}", i, TyDisp(t))).collect();
        format!("{}struct {}{}{} {{ {} }}\n", attrs, st.name, struct_generics(&st.name, st.nparams), wh, fields.join(", "))
    } else {
        let mut vs = vec![];
        let mut k = 0;
        for (vi, n) in st.variants.iter().enumerate() {
            let fs: Vec<String> = st.fields[k..k + n].iter().enumerate().map(|(i, t)| format!("f{}: {}", i, TyDisp(t))).collect();
            k += n;
            vs.push(format!("X{} {{ {} }}", vi, fs.join(", ")));
        }
        format!("{}enum {}{}{} {{ {} }}\n", attrs, st.name, struct_generics(&st.name, st.nparams), wh, vs.join(", "))
    }
}

pub fn trait_text(tr: &MTrait) -> String {
    let mut attrs = String::new();
    if tr.auto {
        attrs.push_str("#[auto] ");
    }
    if tr.coinductive {
        attrs.push_str("#[coinductive] ");
    }
    if tr.marker {
        attrs.push_str("#[marker] ");
    }
    if tr.upstream {
        attrs.push_str("#[upstream] ");
    }
    if tr.fundamental {
        attrs.push_str("#[fundamental] ");
    }
    if let Some(l) = &tr.lang {
        attrs.push_str(&format!("#[lang({})] ", l));
    }
    let wh = if tr.supers.is_empty() {
        String::new()
    } else {
        format!(
            " where {}",
            tr.supers.iter().map(|p| pred_text(&p.subst(&|i| if i == 0 { MTy::nullary("Self") } else { MTy::Var(i) }))).collect::<Vec<_>>().join(", ")
        )
    };
    let assoc: Vec<String> = tr.assoc.iter().map(|a| format!("type {};", a)).collect();
    format!("{}trait {}{}{} {{ {} }}\n", attrs, tr.name, generics(tr.nparams, 1), wh, assoc.join(" "))
}

pub fn impl_text(im: &MImpl) -> String {
    let targs = if im.head.args.len() > 1 { format!("<{}>", im.head.args[1..].iter().map(|t| TyDisp(t).to_string()).collect::<Vec<_>>().join(", ")) } else { String::new() };
    let mut wcs: Vec<String> = im.wheres.iter().map(pred_text).collect();
    if let Some(x) = &im.extra_where {
        wcs.push(x.clone());
    }
    let wh = if wcs.is_empty() { String::new() } else { format!(" where {}", wcs.join(", ")) };
    let vals: Vec<String> = im.assoc_vals.iter().map(|(n, v)| format!("type {} = {};", n, TyDisp(v))).collect();
    format!(
        "{}impl{} {}{}{} for {}{} {{ {} }}\n",
        if im.upstream { "#[upstream] " } else { "" },
        generics(im.nvars, 0),
        if im.positive { "" } else { "!" },
        im.head.tr,
        targs,
        TyDisp(&im.head.args[0]),
        wh,
        vals.join(" ")
    )
}

pub fn program_text(p: &MProgram) -> String {
    let mut s = String::new();
    for st in &p.structs {
        s.push_str(&struct_text(st));
    }
    for tr in &p.traits {
        s.push_str(&trait_text(tr));
    }
    for im in &p.impls {
        s.push_str(&impl_text(im));
    }
    for x in &p.extra_items {
        s.push_str(x);
    }
    s
}

/// Items as separately permutable strings (for C13).
pub fn program_items(p: &MProgram) -> Vec<String> {
    let mut v = vec![];
    v.extend(p.structs.iter().map(struct_text));
    v.extend(p.traits.iter().map(trait_text));
    v.extend(p.impls.iter().map(impl_text));
    v.extend(p.extra_items.iter().cloned());
    v
}

pub fn goal_text(g: &MGoal) -> String {
    match g {
        MGoal::Pred(p) => pred_text(p),
        MGoal::Eq(a, b) => format!("{} = {}", TyDisp(a), TyDisp(b)),
        MGoal::And(gs) => gs.iter().map(goal_text).collect::<Vec<_>>().join(", "),
        // `forall<T> { not { G } }` (chalk refutes `exists<T> { G }`) is modelled as Not(Exists(.., u32::MAX, G))
        MGoal::Not(g) => match &**g {
            MGoal::Exists(vs, l, inner) if *l == u32::MAX => format!("forall<{}> {{ not {{ {} }} }}", vs.iter().map(|v| var_name(*v)).collect::<Vec<_>>().join(", "), goal_text(inner)),
            _ => format!("not {{ {} }}", goal_text(g)),
        },
        MGoal::Forall(u, n, g) => format!("forall<{}> {{ {} }}", (0..*n).map(|i| ph_name(*u, i)).collect::<Vec<_>>().join(", "), goal_text(g)),
        MGoal::Exists(vs, _, g) => format!("exists<{}> {{ {} }}", vs.iter().map(|v| var_name(*v)).collect::<Vec<_>>().join(", "), goal_text(g)),
        MGoal::If(h, g) => format!("if ({}) {{ {} }}", h.iter().map(pred_text).collect::<Vec<_>>().join("; "), goal_text(g)),
    }
}

pub fn collect_phs(g: &MGoal, out: &mut Vec<(u32, u32)>) {
    match g {
        MGoal::Forall(u, n, g) => {
            for i in 0..*n {
                out.push((*u, i));
            }
            collect_phs(g, out)
        }
        MGoal::Exists(_, _, g) | MGoal::Not(g) | MGoal::If(_, g) => collect_phs(g, out),
        MGoal::And(gs) => gs.iter().for_each(|g| collect_phs(g, out)),
        _ => {}
    }
}

/// (var id, level) of every exists variable in peel order.
pub fn collect_exists(g: &MGoal, out: &mut Vec<(usize, u32)>) {
    match g {
        MGoal::Exists(vs, l, g) => {
            for v in vs {
                out.push((*v, *l));
            }
            collect_exists(g, out)
        }
        // (binders under a negation are not unknowns of the query)
        MGoal::Forall(_, _, g) | MGoal::If(_, g) => collect_exists(g, out),
        MGoal::And(gs) => gs.iter().for_each(|g| collect_exists(g, out)),
        _ => {}
    }
}

/// strip the outer (peelable) exists binders — they are enumerated by the checker
pub fn strip_exists(g: &MGoal) -> MGoal {
    match g {
        MGoal::Exists(_, _, g) => strip_exists(g),
        MGoal::Forall(u, n, g) => MGoal::Forall(*u, *n, Box::new(strip_exists(g))),
        MGoal::If(h, g) => MGoal::If(h.clone(), Box::new(strip_exists(g))),
        other => other.clone(),
    }
}

pub fn goal_has_not(g: &MGoal) -> bool {
    match g {
        MGoal::Not(_) => true,
        MGoal::Forall(_, _, g) | MGoal::Exists(_, _, g) | MGoal::If(_, g) => goal_has_not(g),
        MGoal::And(gs) => gs.iter().any(goal_has_not),
        _ => false,
    }
}

pub fn goal_preds(g: &MGoal, out: &mut Vec<MPred>) {
    match g {
        MGoal::Pred(p) => out.push(p.clone()),
        MGoal::Not(g) | MGoal::Forall(_, _, g) | MGoal::Exists(_, _, g) => goal_preds(g, out),
        MGoal::If(h, g) => {
            out.extend(h.iter().cloned());
            goal_preds(g, out)
        }
        MGoal::And(gs) => gs.iter().for_each(|g| goal_preds(g, out)),
        MGoal::Eq(..) => {}
    }
}

// ---------------------------------------------------------------------------------------------
// semantics

#[derive(Copy, Clone, PartialEq, Eq, Debug)]
pub enum Tri {
    True,
    False,
    Unknown,
}

impl Tri {
    pub fn and(self, o: Tri) -> Tri {
        match (self, o) {
            (Tri::False, _) | (_, Tri::False) => Tri::False,
            (Tri::True, Tri::True) => Tri::True,
            _ => Tri::Unknown,
        }
    }
    pub fn not(self) -> Tri {
        match self {
            Tri::True => Tri::False,
            Tri::False => Tri::True,
            Tri::Unknown => Tri::Unknown,
        }
    }
}

pub struct Universe {
    pub terms: Vec<MTy>,
    pub max_size: usize,
}

/// All ground terms of size <= max_size over `ctors` (name, arity) plus the placeholders.
pub fn build_universe_from(ctors: &[(String, usize)], phs: &[(u32, u32)], max_size: usize) -> Universe {
    let mut by_size: Vec<Vec<MTy>> = vec![vec![]; max_size + 1];
    for (n, k) in ctors {
        if *k == 0 {
            by_size[1].push(MTy::App(n.clone(), vec![]));
        }
    }
    for (u, i) in phs {
        by_size[1].push(MTy::Ph(*u, *i));
    }
    fn rec(k: usize, rem: usize, by_size: &Vec<Vec<MTy>>, cur: &mut Vec<MTy>, out: &mut Vec<Vec<MTy>>) {
        if k == 0 {
            if rem == 0 {
                out.push(cur.clone());
            }
            return;
        }
        for sz in 1..=rem {
            if sz >= by_size.len() {
                break;
            }
            if rem - sz < k - 1 {
                break;
            }
            for t in &by_size[sz] {
                cur.push(t.clone());
                rec(k - 1, rem - sz, by_size, cur, out);
                cur.pop();
            }
        }
    }
    for s in 2..=max_size {
        let mut new = vec![];
        for (n, k) in ctors {
            if *k == 0 {
                continue;
            }
            let mut out = vec![];
            rec(*k, s - 1, &by_size, &mut vec![], &mut out);
            for a in out {
                new.push(MTy::App(n.clone(), a));
            }
        }
        by_size[s] = new;
    }
    Universe { terms: by_size.into_iter().flatten().collect(), max_size }
}

pub fn build_universe(prog: &MProgram, phs: &[(u32, u32)], max_size: usize) -> Universe {
    let ctors: Vec<(String, usize)> = prog.structs.iter().map(|s| (s.name.clone(), s.nparams)).collect();
    build_universe_from(&ctors, phs, max_size)
}

/// Structural (built-in) rules plugged into the model by C08. Returns `Some(bodies)` when the built-in rule
/// decides this atom's alternatives *in addition to* explicit impls; `None` when no built-in rule applies.
pub type BuiltinRule = fn(&MProgram, &MPred) -> Option<Vec<Vec<MPred>>>;

pub struct Sem<'a> {
    pub prog: &'a MProgram,
    /// Atoms whose arguments are larger than this are out of bounds (unknown).
    pub atom_max: usize,
    pub builtin: Option<BuiltinRule>,
    /// env key -> (atom -> (lo, hi))
    memo: HashMap<Vec<MPred>, HashMap<MPred, (bool, bool, bool)>>,
    /// whether the last `pred` query's derivation stayed entirely inside the size bound
    pub last_clean: bool,
    pub atoms_evaluated: usize,
    /// cap on the reachable set of one query; beyond it the verdict is Unknown
    pub reach_cap: usize,
}

impl<'a> Sem<'a> {
    pub fn new(prog: &'a MProgram, atom_max: usize) -> Self {
        Sem { prog, atom_max, builtin: None, memo: HashMap::new(), last_clean: true, atoms_evaluated: 0, reach_cap: 20000 }
    }

    fn in_bounds(&self, p: &MPred) -> bool {
        p.args.iter().all(|t| t.size() <= self.atom_max)
    }

    /// No positive impl head of `p`'s trait unifies with `p` (the variables of `p` and of the head renamed apart).
    pub fn unifies_with_no_head(&self, p: &MPred) -> bool {
        for im in self.prog.impls.iter().filter(|im| im.positive && im.head.tr == p.tr && im.head.args.len() == p.args.len()) {
            let head = im.head.subst(&|i| MTy::Var(100_000 + i));
            let mut sub = BTreeMap::new();
            if head.args.iter().zip(&p.args).all(|(a, b)| unify_ty(a, b, &mut sub)) {
                return false;
            }
        }
        true
    }

    pub fn is_coinductive(&self, p: &MPred) -> bool {
        let t = self.prog.tr(&p.tr);
        t.coinductive || t.auto
    }

    /// Elaborate hypotheses: closure of FromEnv under the trait's where-clauses (supertraits).
    pub fn elaborate(&self, hyps: &[MPred]) -> BTreeSet<MPred> {
        let mut set: BTreeSet<MPred> = hyps.iter().cloned().collect();
        let mut work: Vec<MPred> = hyps.to_vec();
        while let Some(h) = work.pop() {
            if h.tr == FROM_ENV_TY {
                // FromEnv(S<a..>) => FromEnv(wc[a..]) for the struct's where-clauses
                if let MTy::App(n, args) = &h.args[0] {
                    if let Some(st) = self.prog.st(n) {
                        for wc in &st.wheres {
                            let inst = wc.subst(&|i| args[i].clone());
                            if set.insert(inst.clone()) {
                                work.push(inst);
                            }
                        }
                    }
                }
                continue;
            }
            let tr = self.prog.tr(&h.tr);
            for sup in &tr.supers {
                let inst = sup.subst(&|i| h.args[i].clone());
                if set.insert(inst.clone()) {
                    work.push(inst);
                }
            }
        }
        set
    }

    /// All alternative bodies for a ground Impl atom.
    pub fn bodies(&self, p: &MPred, env: &BTreeSet<MPred>) -> Vec<Vec<MPred>> {
        let mut out = vec![];
        if env.contains(p) {
            out.push(vec![]);
        }
        let tr = self.prog.tr(&p.tr);
        for im in &self.prog.impls {
            if !im.positive || im.head.tr != p.tr {
                continue;
            }
            let mut b = BTreeMap::new();
            if im.head.args.len() == p.args.len() && im.head.args.iter().zip(&p.args).all(|(pat, t)| match_ty(pat, t, &mut b)) {
                let body: Vec<MPred> = im.wheres.iter().map(|w| w.subst(&|i| b.get(&i).cloned().expect("impl var not in header"))).collect();
                out.push(body);
            }
        }
        if let Some(rule) = self.builtin {
            if let Some(bs) = rule(self.prog, p) {
                out.extend(bs);
            }
        }
        if tr.auto {
            // default auto impl for a struct unless any explicit impl (pos or neg) for that constructor
            if let MTy::App(n, args) = &p.args[0] {
                let provided = self.prog.impls.iter().any(|im| im.head.tr == p.tr && matches!(&im.head.args[0], MTy::App(m, _) if m == n));
                if !provided {
                    if let Some(st) = self.prog.st(n) {
                        if st.phantom {
                            // PhantomData<T>: constituent is T
                            let body = args.iter().map(|a| MPred { tr: p.tr.clone(), args: vec![a.clone()] }).collect();
                            out.push(body);
                        } else {
                            let body = st.fields.iter().map(|f| MPred { tr: p.tr.clone(), args: vec![f.subst(&|i| args[i].clone())] }).collect();
                            out.push(body);
                        }
                    } else if n.starts_with('@') || SCALARS.contains(&n.as_str()) {
                        // built-in constituent types
                        match n.as_str() {
                            "@tuple" | "@array" | "@slice" | "@ref" | "@refmut" | "@ptr" | "@ptrmut" => {
                                out.push(args.iter().map(|a| MPred { tr: p.tr.clone(), args: vec![a.clone()] }).collect())
                            }
                            "@str" | "@never" | "@fn" => out.push(vec![]),
                            _ if SCALARS.contains(&n.as_str()) => out.push(vec![]),
                            _ => {}
                        }
                    }
                }
            }
        }
        out
    }

    fn env_key(hyps: &[MPred]) -> Vec<MPred> {
        let mut k = hyps.to_vec();
        k.sort();
        k.dedup();
        k
    }

    /// Three-valued truth of a ground trait predicate under hypotheses.
    pub fn pred(&mut self, hyps: &[MPred], p: &MPred) -> Tri {
        assert!(p.is_ground(), "model: non-ground atom {:?}", p);
        let key = Self::env_key(hyps);
        if let Some(m) = self.memo.get(&key) {
            if let Some((lo, hi, clean)) = m.get(p) {
                self.last_clean = *clean;
                return tri(*lo, *hi);
            }
        }
        let env = self.elaborate(&key);
        if !self.in_bounds(p) && !env.contains(p) {
            self.last_clean = false;
            return Tri::Unknown;
        }
        let mut clean = true;
        // reachable closure
        let mut reach: Vec<MPred> = vec![p.clone()];
        let mut index: HashMap<MPred, usize> = HashMap::new();
        index.insert(p.clone(), 0);
        let mut bodies: Vec<Vec<Vec<MPred>>> = vec![];
        let mut i = 0;
        let known = self.memo.get(&key);
        let mut capped = false;
        while i < reach.len() {
            let a = reach[i].clone();
            let bs = self.bodies(&a, &env);
            for body in &bs {
                for b in body {
                    if index.contains_key(b) {
                        continue;
                    }
                    if let Some(kn) = known.and_then(|m| m.get(b)) {
                        clean &= kn.2;
                        continue;
                    }
                    if !self.in_bounds(b) && !env.contains(b) {
                        clean = false;
                        continue;
                    }
                    index.insert(b.clone(), reach.len());
                    reach.push(b.clone());
                }
            }
            bodies.push(bs);
            i += 1;
            if reach.len() > self.reach_cap {
                capped = true;
                break;
            }
        }
        if capped {
            self.last_clean = false;
            return Tri::Unknown;
        }
        self.atoms_evaluated += reach.len();
        let coind: Vec<bool> = reach.iter().map(|a| self.is_coinductive(a)).collect();
        let run = |oob: bool| -> Vec<bool> {
            let lookup = |truth: &Vec<bool>, b: &MPred| -> bool {
                if let Some(&j) = index.get(b) {
                    truth[j]
                } else if let Some((lo, hi, _)) = known.and_then(|m| m.get(b)) {
                    if oob {
                        *hi
                    } else {
                        *lo
                    }
                } else {
                    oob
                }
            };
            let mut truth: Vec<bool> = coind.clone();
            loop {
                // inner LFP for inductive atoms given the current coinductive assignment
                for j in 0..reach.len() {
                    if !coind[j] {
                        truth[j] = false;
                    }
                }
                loop {
                    let mut changed = false;
                    for j in 0..reach.len() {
                        if coind[j] || truth[j] {
                            continue;
                        }
                        if bodies[j].iter().any(|body| body.iter().all(|b| lookup(&truth, b))) {
                            truth[j] = true;
                            changed = true;
                        }
                    }
                    if !changed {
                        break;
                    }
                }
                // one GFP step for coinductive atoms
                let mut changed = false;
                for j in 0..reach.len() {
                    if !coind[j] || !truth[j] {
                        continue;
                    }
                    if !bodies[j].iter().any(|body| body.iter().all(|b| lookup(&truth, b))) {
                        truth[j] = false;
                        changed = true;
                    }
                }
                if !changed {
                    break;
                }
            }
            truth
        };
        let lo = run(false);
        let hi = run(true);
        let m = self.memo.entry(key).or_default();
        for (j, a) in reach.into_iter().enumerate() {
            m.insert(a, (lo[j], hi[j], clean));
        }
        self.last_clean = clean;
        tri(lo[0], hi[0])
    }

    /// Evaluate a goal whose peeled exists-variables are all assigned (ground). `uni` bounds inner `exists`.
    pub fn eval(&mut self, uni: &Universe, hyps: &mut Vec<MPred>, g: &MGoal, asg: &BTreeMap<usize, MTy>) -> Tri {
        let s = |i: usize| asg.get(&i).cloned().unwrap_or(MTy::Var(i));
        match g {
            MGoal::Pred(p) => {
                let p = p.subst(&s);
                self.pred(hyps, &p)
            }
            MGoal::Eq(a, b) => {
                if a.subst(&s) == b.subst(&s) {
                    Tri::True
                } else {
                    Tri::False
                }
            }
            MGoal::And(gs) => {
                let mut r = Tri::True;
                for g in gs {
                    r = r.and(self.eval(uni, hyps, g, asg));
                    if r == Tri::False {
                        break;
                    }
                }
                r
            }
            MGoal::Not(g) => self.eval(uni, hyps, g, asg).not(),
            MGoal::Forall(_, _, g) => self.eval(uni, hyps, g, asg),
            MGoal::Exists(vs, lvl, g) => {
                let cands: Vec<MTy> = uni.terms.iter().filter(|t| t.max_ph_universe() <= *lvl).cloned().collect();
                if cands.is_empty() {
                    return Tri::Unknown;
                }
                let mut idx = vec![0usize; vs.len()];
                loop {
                    let mut a2 = asg.clone();
                    for (k, v) in vs.iter().enumerate() {
                        a2.insert(*v, cands[idx[k]].clone());
                    }
                    if self.eval(uni, hyps, g, &a2) == Tri::True {
                        return Tri::True;
                    }
                    let mut k = 0;
                    loop {
                        if k == vs.len() {
                            break;
                        }
                        idx[k] += 1;
                        if idx[k] < cands.len() {
                            break;
                        }
                        idx[k] = 0;
                        k += 1;
                    }
                    if k == vs.len() {
                        break;
                    }
                }
                // no witness within the bound: a larger witness may exist — unless the goal is a single atom that unifies
                // with the head of no positive impl at all (and nothing is assumed), which refutes it for every size
                if hyps.is_empty() {
                    if let MGoal::Pred(p) = &**g {
                        let p = p.subst(&s);
                        if !self.is_coinductive(&p) && self.builtin.is_none() && !self.prog.tr(&p.tr).auto && self.unifies_with_no_head(&p) {
                            return Tri::False;
                        }
                    }
                }
                Tri::Unknown
            }
            MGoal::If(h, g) => {
                let n = hyps.len();
                for p in h {
                    hyps.push(p.subst(&s));
                }
                let r = self.eval(uni, hyps, g, asg);
                hyps.truncate(n);
                r
            }
        }
    }
}

fn tri(lo: bool, hi: bool) -> Tri {
    if lo {
        Tri::True
    } else if hi {
        Tri::Unknown
    } else {
        Tri::False
    }
}

/// Enumerate assignments from candidate lists; callback returns false to stop.
pub fn assignments(cands: &[Vec<MTy>], f: &mut dyn FnMut(&[MTy]) -> bool) {
    let k = cands.len();
    if cands.iter().any(|c| c.is_empty()) {
        return;
    }
    let mut idx = vec![0usize; k];
    loop {
        let cur: Vec<MTy> = idx.iter().enumerate().map(|(i, &j)| cands[i][j].clone()).collect();
        if !f(&cur) {
            return;
        }
        let mut j = 0;
        loop {
            if j == k {
                return;
            }
            idx[j] += 1;
            if idx[j] < cands[j].len() {
                break;
            }
            idx[j] = 0;
            j += 1;
        }
    }
}
