//! C06 – hypotheses and implied bounds yield exactly their consequences; assumptions never leak.
use crate::case::{CaseOut, Ctx, Tier};
use crate::common::*;
use crate::drive::*;
use crate::json::J;
use crate::model::*;
use crate::rng::Rng;

pub fn cases(t: Tier) -> u64 {
    match t {
        Tier::Quick => 400,
        Tier::Thorough => 6000,
    }
}

/// Supertrait hierarchies (DAGs, diamonds, cycles; Self bounds and bounds on the trait's own parameters), structs with
/// where-clauses, impls with and without the bounds WF would demand. Returns closed goals.
pub fn gen_hierarchy_m(r: &mut Rng) -> (MProgram, Vec<MGoal>) {
    let mut p = MProgram::default();
    for n in ["A", "B", "C"] {
        p.structs.push(MStruct { name: n.into(), ..Default::default() });
    }
    p.structs.push(MStruct { name: "Vec".into(), nparams: 1, ..Default::default() });
    let nt = 3 + r.below(3);
    for i in 0..nt {
        let nparams = if r.chance(25) { 1 } else { 0 };
        p.traits.push(MTrait { name: format!("T{}", i), nparams, ..Default::default() });
    }
    // supertrait edges
    for i in 0..nt {
        let mut supers = vec![];
        for _ in 0..r.below(3) {
            let j = r.below(nt);
            // mostly a DAG (j < i); sometimes a cycle or self loop
            if !(j < i || r.chance(20)) {
                continue;
            }
            let tj = p.traits[j].clone();
            let subject = if p.traits[i].nparams == 1 && r.chance(40) { MTy::Var(1) } else { MTy::Var(0) };
            let mut args = vec![subject];
            for _ in 0..tj.nparams {
                args.push(if p.traits[i].nparams == 1 && r.chance(50) { MTy::Var(1) } else if r.chance(50) { MTy::Var(0) } else { MTy::nullary("A") });
            }
            supers.push(MPred::new(&tj.name, args));
        }
        p.traits[i].supers = supers;
    }
    // structs with where-clauses
    for wi in 0..1 + r.below(2) {
        let k = r.below(nt);
        let tk = p.traits[k].clone();
        let mut args = vec![MTy::Var(0)];
        for _ in 0..tk.nparams {
            args.push(if r.chance(50) { MTy::Var(0) } else { MTy::nullary("B") });
        }
        let mut wheres = vec![MPred::new(&tk.name, args)];
        if r.chance(30) {
            let k2 = r.below(nt);
            if p.traits[k2].nparams == 0 {
                wheres.push(MPred::new(&p.traits[k2].name, vec![MTy::app("Vec", vec![MTy::Var(0)])]));
            }
        }
        p.structs.push(MStruct { name: format!("W{}", wi), nparams: 1, wheres, ..Default::default() });
    }
    // impls
    let concrete = ["A", "B", "C"];
    for _ in 0..3 + r.below(5) {
        let t = r.pick(&p.traits).clone();
        let extra: Vec<MTy> = (0..t.nparams).map(|_| MTy::nullary(*r.pick(&concrete))).collect();
        match r.below(4) {
            0 | 1 => {
                let mut args = vec![MTy::nullary(*r.pick(&concrete))];
                args.extend(extra);
                p.impls.push(MImpl { head: MPred::new(&t.name, args), positive: true, ..Default::default() });
            }
            2 => {
                // blanket over Vec / W with a bound on the parameter (a sub-term of the header)
                let ctor = if r.chance(50) { "Vec".to_string() } else { format!("W{}", 0) };
                let mut args = vec![MTy::app(&ctor, vec![MTy::Var(0)])];
                args.extend(extra);
                let b = r.pick(&p.traits).clone();
                let mut wargs = vec![MTy::Var(0)];
                for _ in 0..b.nparams {
                    wargs.push(MTy::Var(0));
                }
                let wheres = if r.chance(70) { vec![MPred::new(&b.name, wargs)] } else { vec![] };
                p.impls.push(MImpl { nvars: 1, head: MPred::new(&t.name, args), wheres, positive: true, ..Default::default() });
            }
            _ => {
                // fully blanket impl guarded by another trait
                if t.nparams == 0 {
                    let b = r.pick(&p.traits).clone();
                    if b.name != t.name && b.nparams == 0 {
                        p.impls.push(MImpl { nvars: 1, head: MPred::new(&t.name, vec![MTy::Var(0)]), wheres: vec![MPred::new(&b.name, vec![MTy::Var(0)])], positive: true, ..Default::default() });
                    }
                }
            }
        }
    }
    // goals
    let mut goals = vec![];
    let ph0 = MTy::Ph(1, 0);
    let ph1 = MTy::Ph(1, 1);
    let mk = |r: &mut Rng, p: &MProgram, t: &MTrait, subj: MTy| -> MPred {
        let mut args = vec![subj];
        for _ in 0..t.nparams {
            args.push(match r.below(3) {
                0 => MTy::Ph(1, 1),
                1 => MTy::Ph(1, 0),
                _ => MTy::nullary(*r.pick(&["A", "B", "C"])),
            });
        }
        let _ = p;
        MPred::new(&t.name, args)
    };
    for _ in 0..8 {
        let th = r.pick(&p.traits).clone();
        let tg = r.pick(&p.traits).clone();
        let hyp = match r.below(5) {
            0 => MPred::new(FROM_ENV_TY, vec![MTy::app(&p.structs[4 + r.below(p.structs.len() - 4)].name, vec![ph0.clone()])]),
            1 => mk(r, &p, &th, MTy::app("Vec", vec![ph0.clone()])),
            _ => mk(r, &p, &th, ph0.clone()),
        };
        let subj = match r.below(6) {
            0 => MTy::app("Vec", vec![ph0.clone()]),
            1 => ph1.clone(),
            2 => MTy::nullary(*r.pick(&concrete)),
            3 => MTy::app("W0", vec![ph0.clone()]),
            _ => ph0.clone(),
        };
        let g = mk(r, &p, &tg, subj);
        let mut hyps = vec![hyp];
        if r.chance(25) {
            let t2 = r.pick(&p.traits).clone();
            hyps.push(mk(r, &p, &t2, ph1.clone()));
        }
        let with = MGoal::Forall(1, 2, Box::new(MGoal::If(hyps.clone(), Box::new(MGoal::Pred(g.clone())))));
        let without = MGoal::Forall(1, 2, Box::new(MGoal::Pred(g.clone())));
        goals.push(with);
        goals.push(without);
        // compound G: the hypothesis must be visible to its own conjunct only, whichever conjunct is written first
        if r.chance(50) {
            let mut conj = vec![MGoal::Pred(g.clone()), MGoal::If(hyps.clone(), Box::new(MGoal::Pred(g.clone())))];
            if r.chance(50) {
                conj.swap(0, 1);
            }
            let body = MGoal::And(conj);
            goals.push(if r.chance(40) {
                let t3 = r.pick(&p.traits).clone();
                let outer = mk(r, &p, &t3, ph1.clone());
                MGoal::Forall(1, 2, Box::new(MGoal::If(vec![outer], Box::new(body))))
            } else {
                MGoal::Forall(1, 2, Box::new(body))
            });
        }
    }
    (p, goals)
}

pub fn gen_hierarchy(r: &mut Rng) -> (MProgram, Vec<String>) {
    let (p, gs) = gen_hierarchy_m(r);
    let texts = gs.iter().map(goal_text).collect();
    (p, texts)
}

pub fn run(ctx: &Ctx, out: &mut CaseOut) {
    let mut r = Rng::for_case(ctx.prop, ctx.seed, ctx.k);
    let (prog, goals) = gen_hierarchy_m(&mut r);
    let text = program_text(&prog);
    let uni = build_universe(&prog, &[(1, 0), (1, 1)], 2);
    let mut sem = Sem::new(&prog, 8);
    let mut cleans = vec![];
    let verdicts: Vec<Tri> = goals
        .iter()
        .map(|g| {
            let v = sem.eval(&uni, &mut vec![], g, &Default::default());
            cleans.push(sem.last_clean);
            v
        })
        .collect();
    out.sample = Some(J::obj().set("program", text.as_str()).set("goals", J::Arr(goals.iter().zip(&verdicts).take(4).map(|(g, v)| J::Str(format!("{} => model {:?}", goal_text(g), v))).collect())));
    for choice in both() {
        let l = match load(&text, choice, false) {
            Ok(l) => l,
            Err(e) => {
                out.inconclusive(&format!("generated program failed to lower: {}", crate::case::truncate(&e, 80)));
                return;
            }
        };
        with_program(&l, || {
            let peeled: Vec<Option<Peeled>> = goals.iter().map(|g| lower_and_peel(&l, &goal_text(g), &[]).ok()).collect();
            // one solver instance, goals with and without hypotheses interleaved in a random order, some repeated
            let mut order: Vec<usize> = (0..goals.len()).collect();
            r.shuffle(&mut order);
            for _ in 0..4 {
                let x = *r.pick(&order);
                order.push(x);
            }
            let mut solver = choice.into_solver();
            for (pos, &gi) in order.iter().enumerate() {
                let p = match &peeled[gi] {
                    Some(p) => p,
                    None => {
                        out.inconclusive("goal failed to lower");
                        continue;
                    }
                };
                let db = FaultDb::new(&*l.program, solver_name(&choice));
                db.budget.set(300_000);
                let o = solve(&mut *solver, &db, &p.goal);
                let rec = finish(&l, p, o, &db);
                let ans = match &rec.ans {
                    Ok(a) => a,
                    Err(_) => {
                        note_non_answer(out, &rec);
                        continue;
                    }
                };
                out.evals += 1;
                let has_hyp = gi % 2 == 0;
                out.count(&format!("answer:{}:{}:{}", solver_name(&choice), if has_hyp { "with-hyp" } else { "without-hyp" }, ans.kind()));
                let expect = verdicts[gi];
                let gtext = goal_text(&goals[gi]);
                let bad = match (ans, expect) {
                    (MAnswer::Unique(..), Tri::False) => Some(if has_hyp { "proved although it does not follow from program + elaborated hypotheses" } else { "proved without hypotheses although it does not follow from the program (leaked assumption?)" }),
                    (MAnswer::None, Tri::True) => Some("not proved although it follows from the program and the (elaborated) hypotheses"),
                    (MAnswer::Unique(..), _) | (MAnswer::None, _) => None,
                    (_, Tri::Unknown) => None,
                    (_, _) if cleans[gi] => Some("ambiguous answer on a closed in-limit goal"),
                    _ => None,
                };
                if let Some(why) = bad {
                    // F19: the recursive solver answers Ambiguous when an implied bound has to be found through a
                    // parameterised trait's where-clause (`FromEnv(Self: Sup) :- FromEnv(Self: Tr<?X>)` needs an
                    // existential ?X and the search becomes a non-unique inductive cycle)
                    let param_trait_with_bounds = prog.traits.iter().any(|t| t.nparams > 0 && !t.supers.is_empty());
                    let sig = if solver_name(&choice) == "recursive" && !matches!(ans, MAnswer::Unique(..) | MAnswer::None) && param_trait_with_bounds { Some("recursive:implied-bound-existential-ambiguity") } else { None };
                    out.violation(
                        sig,
                        format!("{} (goal #{} of the sequence) answered `{}` for `{}`: {}", solver_name(&choice), pos, rec.shown, gtext, why),
                        detail(&text, &gtext, &choice)
                            .set("answer", rec.shown.as_str())
                            .set("model_verdict", format!("{:?}", expect))
                            .set("sequence", J::Arr(order[..=pos].iter().map(|&i| J::Str(goal_text(&goals[i]))).collect())),
                    );
                } else if expect != Tri::Unknown {
                    out.count(&format!("nontrivial:{}:{:?}", if has_hyp { "with-hyp" } else { "without-hyp" }, expect));
                    out.nt(&format!("{}|{}|{}", text, gtext, solver_name(&choice)));
                }
            }
        });
    }
}
