//! C29 – subtyping follows declared variance.
use crate::case::{CaseOut, Ctx, Tier};
use crate::drive::*;
use crate::json::J;
use crate::rng::Rng;
use chalk_integration::interner::ChalkIr;
use chalk_ir::*;
use chalk_solve::Solution;
use std::collections::BTreeSet;

pub fn cases(t: Tier) -> u64 {
    match t {
        Tier::Quick => 500,
        Tier::Thorough => 10000,
    }
}

#[derive(Clone, Debug, PartialEq, Eq, PartialOrd, Ord)]
enum Lt {
    Static,
    /// forall placeholder 'p{i}
    P(usize),
    /// exists unknown 'x{i}
    X(usize),
}

#[derive(Clone, Debug, PartialEq)]
enum Ty {
    U32,
    Bool,
    Ref(bool, Lt, Box<Ty>),
    Fn(Vec<Ty>, Box<Ty>),
    Tuple(Vec<Ty>),
    /// ADT index into ADTS with its arguments
    Adt(usize, Vec<Arg>),
}

#[derive(Clone, Debug, PartialEq)]
enum Arg {
    L(Lt),
    T(Ty),
}

#[derive(Clone, Copy, Debug, PartialEq)]
enum V {
    Co,
    Contra,
    Inv,
}

/// (name, parameter kinds ('l' lifetime / 't' type), variances)
const ADTS: &[(&str, &str, &[V])] = &[
    ("CoL", "l", &[V::Co]),
    ("ContraL", "l", &[V::Contra]),
    ("InvL", "l", &[V::Inv]),
    ("CoT", "t", &[V::Co]),
    ("ContraT", "t", &[V::Contra]),
    ("InvT", "t", &[V::Inv]),
    ("Mix", "lt", &[V::Contra, V::Co]),
    ("Mix2", "tl", &[V::Inv, V::Co]),
];

fn decls() -> String {
    let mut s = String::new();
    for (n, kinds, vs) in ADTS {
        let params: Vec<String> = kinds.chars().enumerate().map(|(i, k)| if k == 'l' { format!("'q{}", i) } else { format!("Q{}", i) }).collect();
        let vtxt: Vec<&str> = vs.iter().map(|v| match v { V::Co => "Covariant", V::Contra => "Contravariant", V::Inv => "Invariant" }).collect();
        s.push_str(&format!("#[variance({})] struct {}<{}> {{ }}\n", vtxt.join(", "), n, params.join(", ")));
    }
    s
}

fn lt_text(l: &Lt) -> String {
    match l {
        Lt::Static => "'static".into(),
        Lt::P(i) => format!("'p{}", i),
        Lt::X(i) => format!("'x{}", i),
    }
}
fn ty_text(t: &Ty) -> String {
    match t {
        Ty::U32 => "u32".into(),
        Ty::Bool => "bool".into(),
        Ty::Ref(m, l, x) => format!("&{} {}{}", lt_text(l), if *m { "mut " } else { "" }, ty_text(x)),
        Ty::Fn(a, r) => format!("fn({}) -> {}", a.iter().map(ty_text).collect::<Vec<_>>().join(", "), ty_text(r)),
        Ty::Tuple(a) => match a.len() {
            1 => format!("({},)", ty_text(&a[0])),
            _ => format!("({})", a.iter().map(ty_text).collect::<Vec<_>>().join(", ")),
        },
        Ty::Adt(i, args) => format!("{}<{}>", ADTS[*i].0, args.iter().map(|a| match a { Arg::L(l) => lt_text(l), Arg::T(t) => ty_text(t) }).collect::<Vec<_>>().join(", ")),
    }
}

fn xform(outer: V, inner: V) -> V {
    match (outer, inner) {
        (V::Inv, _) | (_, V::Inv) => V::Inv,
        (V::Co, v) => v,
        (V::Contra, V::Co) => V::Contra,
        (V::Contra, V::Contra) => V::Co,
    }
}

/// Required outlives pairs (a, b) meaning `a: b`; None when the structures disagree.
/// Convention (from the statement's mechanisms): a lifetime in covariant position related as `sub <= sup` requires
/// `sup: sub`... chalk's `&'a T <: &'b T` requires `'a: 'b`, i.e. the reference's lifetime is a contravariant position.
fn required(v: V, a: &Ty, b: &Ty, out: &mut BTreeSet<(Lt, Lt)>) -> bool {
    let lt = |v: V, x: &Lt, y: &Lt, out: &mut BTreeSet<(Lt, Lt)>| {
        if x == y {
            return;
        }
        match v {
            V::Co => {
                out.insert((y.clone(), x.clone()));
            }
            V::Contra => {
                out.insert((x.clone(), y.clone()));
            }
            V::Inv => {
                out.insert((x.clone(), y.clone()));
                out.insert((y.clone(), x.clone()));
            }
        }
    };
    match (a, b) {
        (Ty::U32, Ty::U32) | (Ty::Bool, Ty::Bool) => true,
        (Ty::Ref(m1, l1, x), Ty::Ref(m2, l2, y)) => {
            if m1 != m2 {
                return false;
            }
            lt(xform(v, V::Contra), l1, l2, out);
            required(xform(v, if *m1 { V::Inv } else { V::Co }), x, y, out)
        }
        (Ty::Fn(a1, r1), Ty::Fn(a2, r2)) => a1.len() == a2.len() && a1.iter().zip(a2).all(|(x, y)| required(xform(v, V::Contra), x, y, out)) && required(xform(v, V::Co), r1, r2, out),
        (Ty::Tuple(a1), Ty::Tuple(a2)) => a1.len() == a2.len() && a1.iter().zip(a2).all(|(x, y)| required(xform(v, V::Co), x, y, out)),
        (Ty::Adt(i, a1), Ty::Adt(j, a2)) => {
            i == j
                && a1.iter().zip(a2).zip(ADTS[*i].2.iter()).all(|((x, y), pv)| match (x, y) {
                    (Arg::L(x), Arg::L(y)) => {
                        lt(xform(v, *pv), x, y, out);
                        true
                    }
                    (Arg::T(x), Arg::T(y)) => required(xform(v, *pv), x, y, out),
                    _ => false,
                })
        }
        _ => false,
    }
}

fn gen_lt(r: &mut Rng) -> Lt {
    match r.below(6) {
        0 => Lt::Static,
        1 | 2 => Lt::X(r.below(2)),
        _ => Lt::P(r.below(3)),
    }
}

fn gen_ty(r: &mut Rng, d: usize) -> Ty {
    match r.below(if d == 0 { 2 } else { 9 }) {
        0 => Ty::U32,
        1 => Ty::Bool,
        2 | 3 => Ty::Ref(r.chance(30), gen_lt(r), Box::new(gen_ty(r, d - 1))),
        4 => Ty::Fn((0..r.below(3)).map(|_| gen_ty(r, d - 1)).collect(), Box::new(gen_ty(r, d - 1))),
        5 => Ty::Tuple((0..1 + r.below(2)).map(|_| gen_ty(r, d - 1)).collect()),
        _ => {
            let i = r.below(ADTS.len());
            let args = ADTS[i].1.chars().map(|k| if k == 'l' { Arg::L(gen_lt(r)) } else { Arg::T(gen_ty(r, d - 1)) }).collect();
            Ty::Adt(i, args)
        }
    }
}

/// Same structure, fresh lifetimes (80% of the pairs), or a structural change.
fn vary(r: &mut Rng, t: &Ty) -> Ty {
    if r.chance(5) {
        return gen_ty(r, 1);
    }
    match t {
        Ty::Ref(m, l, x) => Ty::Ref(if r.chance(4) { !*m } else { *m }, if r.chance(60) { gen_lt(r) } else { l.clone() }, Box::new(vary(r, x))),
        Ty::Fn(a, ret) => Ty::Fn(a.iter().map(|x| vary(r, x)).collect(), Box::new(vary(r, ret))),
        Ty::Tuple(a) => Ty::Tuple(a.iter().map(|x| vary(r, x)).collect()),
        Ty::Adt(i, args) => Ty::Adt(*i, args.iter().map(|a| match a { Arg::L(l) => Arg::L(if r.chance(60) { gen_lt(r) } else { l.clone() }), Arg::T(t) => Arg::T(vary(r, t)) }).collect()),
        o => o.clone(),
    }
}

/// Name of a lifetime of the answer: placeholders and 'static by their goal names, answer variables as 'v<k>.
fn lt_of(l: &Lifetime<I>) -> Result<String, String> {
    match l.data(ChalkIr) {
        LifetimeData::Static => Ok("'static".into()),
        LifetimeData::Placeholder(p) if p.ui.counter == 1 => Ok(format!("'p{}", p.idx)),
        LifetimeData::BoundVar(b) if b.debruijn == DebruijnIndex::INNERMOST => Ok(format!("'v{}", b.index)),
        other => Err(format!("unexpected lifetime {:?}", other)),
    }
}

pub fn run(ctx: &Ctx, out: &mut CaseOut) {
    let mut r = Rng::for_case(ctx.prop, ctx.seed, ctx.k);
    let program = decls();
    for _ in 0..6 {
        let depth = 1 + r.below(3);
        let a = gen_ty(&mut r, depth);
        let b = vary(&mut r, &a);
        let goal = format!("forall<'p0, 'p1, 'p2> {{ exists<'x0, 'x1> {{ Subtype({}, {}) }} }}", ty_text(&a), ty_text(&b));
        let mut req = BTreeSet::new();
        let same_structure = required(V::Co, &a, &b, &mut req);
        let req_txt: BTreeSet<String> = req.iter().map(|(x, y)| format!("{}: {}", lt_text(x), lt_text(y))).collect();
        for choice in both() {
            let l = match load(&program, choice, false) {
                Ok(l) => l,
                Err(e) => {
                    out.inconclusive(&format!("program failed to lower: {}", crate::case::truncate(&e, 80)));
                    return;
                }
            };
            with_program(&l, || {
                let g = match lower_goal_text(&l, &goal) {
                    Ok(g) => g,
                    Err(e) => {
                        out.inconclusive(&format!("goal failed to lower: {}", crate::case::truncate(&e, 80)));
                        return;
                    }
                };
                use chalk_solve::ext::GoalExt;
                let peeled = g.into_peeled_goal(ChalkIr);
                let (o, _, _) = crate::props::c04::fresh_solve_budget(&l, choice, &peeled, 300_000);
                let sol = match o {
                    Outcome::Answer(s) => s,
                    _ => {
                        out.count("solve-panicked-or-over-budget(see C09)");
                        return;
                    }
                };
                out.evals += 1;
                let shown = disp(&sol);
                let d = || J::obj().set("goal", goal.as_str()).set("solver", solver_desc(&choice)).set("answer", shown.as_str()).set("structures_agree", same_structure).set("required_outlives", J::Arr(req_txt.iter().map(|s| J::Str(s.clone())).collect())).set("program", program.as_str());
                match (&sol, same_structure) {
                    (Some(Solution::Unique(_)), false) => {
                        out.violation(None, format!("{}: Subtype succeeds although the two types differ in structure", solver_name(&choice)), d());
                    }
                    (_, false) => {
                        out.count("structures-differ:not-unique");
                        out.nt(&format!("{}|{}", goal, solver_name(&choice)));
                    }
                    (Some(Solution::Unique(c)), true) => {
                        // which answer variable does each unknown lifetime map to?  The canonical query's unknowns are
                        // numbered by first occurrence, so recover the order from the goal text.
                        let mut order: Vec<usize> = vec![];
                        let bytes = goal.as_bytes();
                        let start = goal.find("Subtype").unwrap_or(0);
                        let mut i = start;
                        while i + 2 < bytes.len() {
                            if bytes[i] == b'\'' && bytes[i + 1] == b'x' {
                                let x = (bytes[i + 2] - b'0') as usize;
                                if !order.contains(&x) {
                                    order.push(x);
                                }
                            }
                            i += 1;
                        }
                        // what the answer substitutes for each unknown lifetime
                        let mut unknown_name: Vec<Option<String>> = vec![None; 2];
                        let mut bad: Option<String> = None;
                        for (qi, arg) in c.value.subst.iter(ChalkIr).enumerate() {
                            if let (Some(x), Some(lt)) = (order.get(qi), arg.lifetime(ChalkIr)) {
                                match lt_of(lt) {
                                    Ok(n) => unknown_name[*x] = Some(n),
                                    Err(e) => bad = Some(e),
                                }
                            }
                        }
                        // the required set after applying the answer substitution, reflexive pairs dropped
                        let name = |l: &Lt| -> String {
                            match l {
                                Lt::X(i) => unknown_name[*i].clone().unwrap_or_else(|| format!("'x{}", i)),
                                o => lt_text(o),
                            }
                        };
                        let req_applied: BTreeSet<String> = req.iter().map(|(x, y)| (name(x), name(y))).filter(|(x, y)| x != y).map(|(x, y)| format!("{}: {}", x, y)).collect();
                        let mut got: BTreeSet<String> = BTreeSet::new();
                        for ie in c.value.constraints.iter(ChalkIr) {
                            match &ie.goal {
                                Constraint::LifetimeOutlives(x, y) => match (lt_of(x), lt_of(y)) {
                                    (Ok(x), Ok(y)) => {
                                        if x != y {
                                            got.insert(format!("{}: {}", x, y));
                                        }
                                    }
                                    (Err(e), _) | (_, Err(e)) => bad = Some(e),
                                },
                                other => bad = Some(format!("unexpected constraint {:?}", other)),
                            }
                        }
                        if let Some(e) = bad {
                            out.inconclusive(&format!("cannot interpret constraints: {}", crate::case::truncate(&e, 60)));
                            return;
                        }
                        if got != req_applied {
                            out.violation(None, format!("{}: Subtype returns the lifetime requirements {:?} but the variances of the positions dictate {:?} (after applying the answer's substitution)", solver_name(&choice), got, req_applied), d().set("returned_outlives", J::Arr(got.iter().map(|s| J::Str(s.clone())).collect())));
                        } else {
                            out.count(&format!("requirements-match:{}", if req_applied.is_empty() { "none" } else { "some" }));
                            out.nt(&format!("{}|{}", goal, solver_name(&choice)));
                        }
                    }
                    (_, true) => {
                        out.violation(None, format!("{}: the two types agree in structure but Subtype is not proven (`{}`)", solver_name(&choice), shown), d());
                    }
                }
            });
        }
        if out.sample.is_none() {
            out.sample = Some(J::obj().set("goal", goal.as_str()).set("required_outlives", J::Arr(req_txt.iter().map(|s| J::Str(s.clone())).collect())));
        }
    }
}
