//! C21 – well-formedness checking guarantees the bounds it lets code assume.
use crate::case::{CaseOut, Ctx, Tier};
use crate::drive::*;
use crate::json::J;
use crate::model::*;
use crate::rng::Rng;
use std::collections::BTreeMap;

pub fn cases(t: Tier) -> u64 {
    match t {
        Tier::Quick => 600,
        Tier::Thorough => 10000,
    }
}

/// Programs with supertrait hierarchies, structs with where-clauses and fields, impls with sound or missing bounds.
fn gen_wf_program(r: &mut Rng) -> MProgram {
    let mut p = MProgram::default();
    for n in ["A", "B", "C"] {
        p.structs.push(MStruct { name: n.into(), ..Default::default() });
    }
    let nt = 2 + r.below(3);
    for i in 0..nt {
        p.traits.push(MTrait { name: format!("T{}", i), nparams: if r.chance(20) { 1 } else { 0 }, ..Default::default() });
    }
    for i in 0..nt {
        let mut supers = vec![];
        for _ in 0..r.below(3) {
            let j = r.below(nt);
            if !(j < i || r.chance(15)) {
                continue;
            }
            let tj = p.traits[j].clone();
            let subject = if p.traits[i].nparams == 1 && r.chance(30) { MTy::Var(1) } else { MTy::Var(0) };
            let mut args = vec![subject];
            for _ in 0..tj.nparams {
                args.push(if r.chance(50) { MTy::Var(0) } else { MTy::nullary("A") });
            }
            supers.push(MPred::new(&tj.name, args));
        }
        p.traits[i].supers = supers;
    }
    // generic structs with where-clauses and fields
    let nw = 1 + r.below(3);
    for wi in 0..nw {
        let mut wheres = vec![];
        for _ in 0..r.below(3) {
            let t = r.pick(&p.traits).clone();
            let mut args = vec![MTy::Var(0)];
            for _ in 0..t.nparams {
                args.push(if r.chance(50) { MTy::Var(0) } else { MTy::nullary("B") });
            }
            wheres.push(MPred::new(&t.name, args));
        }
        let mut fields = vec![];
        for _ in 0..r.below(4) {
            fields.push(match r.below(4) {
                0 => MTy::Var(0),
                1 if wi > 0 => MTy::app(&format!("W{}", r.below(wi)), vec![MTy::Var(0)]),
                2 if wi > 0 => MTy::app(&format!("W{}", r.below(wi)), vec![MTy::nullary(*r.pick(&["A", "B", "C"]))]),
                _ => MTy::nullary(*r.pick(&["A", "B", "C"])),
            });
        }
        // the same field type more than once, before the others
        if !fields.is_empty() && r.chance(40) {
            let f = r.pick(&fields).clone();
            let n = 1 + r.below(2);
            for _ in 0..n {
                let pos = r.below(fields.len());
                fields.insert(pos, f.clone());
            }
        }
        // where-clauses too may repeat
        if !wheres.is_empty() && r.chance(25) {
            let w = r.pick(&wheres).clone();
            wheres.insert(0, w);
        }
        p.structs.push(MStruct { name: format!("W{}", wi), nparams: 1, wheres, fields, ..Default::default() });
    }
    // impls: concrete, and blanket over W / all T, with sound or missing bounds
    let concrete = ["A", "B", "C"];
    for _ in 0..3 + r.below(6) {
        let t = r.pick(&p.traits).clone();
        let extra: Vec<MTy> = (0..t.nparams).map(|_| MTy::nullary(*r.pick(&concrete))).collect();
        match r.below(5) {
            0 | 1 | 2 => {
                let mut args = vec![MTy::nullary(*r.pick(&concrete))];
                args.extend(extra);
                p.impls.push(MImpl { head: MPred::new(&t.name, args), positive: true, upstream: r.chance(15), ..Default::default() });
            }
            3 => {
                let w = format!("W{}", r.below(nw));
                let mut args = vec![MTy::app(&w, vec![MTy::Var(0)])];
                args.extend(extra);
                let mut wheres = vec![];
                for _ in 0..r.below(3) {
                    let b = r.pick(&p.traits).clone();
                    let mut wa = vec![MTy::Var(0)];
                    for _ in 0..b.nparams {
                        wa.push(MTy::Var(0));
                    }
                    wheres.push(MPred::new(&b.name, wa));
                }
                p.impls.push(MImpl { nvars: 1, head: MPred::new(&t.name, args), wheres, positive: true, upstream: r.chance(20), ..Default::default() });
            }
            _ => {
                if t.nparams == 0 {
                    let mut wheres = vec![];
                    for _ in 0..1 + r.below(2) {
                        let b = r.pick(&p.traits).clone();
                        if b.nparams == 0 && b.name != t.name {
                            wheres.push(MPred::new(&b.name, vec![MTy::Var(0)]));
                        }
                    }
                    p.impls.push(MImpl { nvars: 1, head: MPred::new(&t.name, vec![MTy::Var(0)]), wheres, positive: true, upstream: r.chance(20), ..Default::default() });
                }
            }
        }
    }
    p
}

/// WF(ty) in the model: every struct's where-clauses hold at its arguments, recursively.
fn wf(prog: &MProgram, sem: &mut Sem, t: &MTy) -> Tri {
    match t {
        MTy::App(n, args) => {
            let mut r = Tri::True;
            for a in args {
                r = r.and(wf(prog, sem, a));
            }
            if let Some(st) = prog.st(n) {
                for w in &st.wheres {
                    r = r.and(sem.pred(&[], &w.subst(&|i| args[i].clone())));
                }
            }
            r
        }
        _ => Tri::True,
    }
}

pub fn run(ctx: &Ctx, out: &mut CaseOut) {
    let mut r = Rng::for_case(ctx.prop, ctx.seed, ctx.k);
    let prog = gen_wf_program(&mut r);
    let text = program_text(&prog);
    out.sample = Some(J::obj().set("program", text.as_str()));
    for choice in both() {
        out.evals += 1;
        let l = match std::panic::catch_unwind(std::panic::AssertUnwindSafe(|| load(&text, choice, true))) {
            Err(e) => {
                out.violation(None, format!("checked_program panicked: {}", crate::case::truncate(&crate::case::panic_msg(&e), 160)), J::obj().set("program", text.as_str()));
                return;
            }
            Ok(Err(e)) => {
                out.count(&format!("rejected:{}", if e.contains("well-formedness") { "wf" } else if e.contains("verlap") { "overlap" } else { "other" }));
                continue;
            }
            Ok(Ok(l)) => l,
        };
        out.count("accepted");
        let uni = build_universe(&prog, &[], 3);
        let mut sem = Sem::new(&prog, 6);
        let d = |extra: String| J::obj().set("program", text.as_str()).set("solver", solver_desc(&choice)).set("witness", extra);
        // (1) every WF concrete type that implements a trait satisfies the trait's where-clauses
        let mut checked = 0u64;
        for tr in &prog.traits {
            if tr.supers.is_empty() {
                continue;
            }
            let arity = 1 + tr.nparams;
            let mut refs: Vec<Vec<MTy>> = vec![vec![]];
            for _ in 0..arity {
                refs = refs.into_iter().flat_map(|p| uni.terms.iter().map(move |t| { let mut q = p.clone(); q.push(t.clone()); q })).collect();
            }
            for rf in refs {
                if rf.iter().any(|t| wf(&prog, &mut sem, t) != Tri::True) {
                    continue;
                }
                let pr = MPred { tr: tr.name.clone(), args: rf.clone() };
                if sem.pred(&[], &pr) != Tri::True {
                    continue;
                }
                for sup in &tr.supers {
                    let s = sup.subst(&|i| rf[i].clone());
                    checked += 1;
                    if sem.pred(&[], &s) == Tri::False {
                        out.violation(None, format!("{}: accepted by well-formedness checking, yet the well-formed type(s) in `{}` implement the trait without its bound `{}`", solver_name(&choice), pred_text(&pr), pred_text(&s)), d(format!("{} holds, {} does not", pred_text(&pr), pred_text(&s))));
                        return;
                    }
                }
            }
        }
        // (2) every field type of a well-formed concrete struct instance is well-formed
        for st in prog.structs.iter().filter(|s| s.nparams == 1) {
            for a in &uni.terms {
                let inst = MTy::app(&st.name, vec![a.clone()]);
                if inst.size() > 4 || wf(&prog, &mut sem, &inst) != Tri::True {
                    continue;
                }
                for f in &st.fields {
                    let ft = f.subst(&|_| a.clone());
                    checked += 1;
                    if wf(&prog, &mut sem, &ft) == Tri::False {
                        out.violation(None, format!("{}: accepted by well-formedness checking, yet the well-formed `{}` has the ill-formed field type `{}`", solver_name(&choice), ty_text(&inst), ty_text(&ft)), d(format!("{} is WF, its field {} is not", ty_text(&inst), ty_text(&ft))));
                        return;
                    }
                }
            }
        }
        out.add("ground-consequences-checked", checked);
        // (3) consequence: answers obtained through implied bounds are true for well-formed types
        with_program(&l, || {
            for tr in prog.traits.iter().filter(|t| t.nparams == 0 && !t.supers.is_empty()) {
                for sup in tr.supers.iter().filter(|s| s.args.len() == 1 && s.args[0] == MTy::Var(0)) {
                    let g = format!("forall<P1_0> {{ if (P1_0: {}) {{ P1_0: {} }} }}", tr.name, sup.tr);
                    if let Ok(p) = lower_and_peel(&l, &g, &[]) {
                        let rec = crate::common::solve_translated(&l, choice, &p, 300_000);
                        if let Ok(MAnswer::Unique(..)) = rec.ans {
                            // instantiate at every WF ground type that implements the trait
                            for t in &uni.terms {
                                if wf(&prog, &mut sem, t) == Tri::True && sem.pred(&[], &MPred::new(&tr.name, vec![t.clone()])) == Tri::True && sem.pred(&[], &MPred::new(&sup.tr, vec![t.clone()])) == Tri::False {
                                    out.violation(None, format!("{}: `{}` is proven through implied bounds but is false at the well-formed type {}", solver_name(&choice), g, ty_text(t)), d(g.clone()));
                                    return;
                                }
                            }
                            out.count("implied-bound-goal-true-at-all-wf-instances");
                        }
                    }
                }
            }
        });
        if checked > 0 {
            out.nt(&format!("{}|{}", text, solver_name(&choice)));
        }
    }
}
