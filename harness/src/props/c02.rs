//! C02 – goals without unknown types are decided definitively (Unique or None, and the right one).
use crate::case::{CaseOut, Ctx, Tier};
use crate::common::*;
use crate::drive::*;
use crate::gen::*;
use crate::json::J;
use crate::judge;
use crate::model::*;
use crate::rng::Rng;
use chalk_integration::SolverChoice;

pub fn cases(t: Tier) -> u64 {
    match t {
        Tier::Quick => 480,
        Tier::Thorough => 8000,
    }
}

pub fn run(ctx: &Ctx, out: &mut CaseOut) {
    let mut r = Rng::for_case(ctx.prop, ctx.seed, ctx.k);
    if ctx.k % 8 == 7 {
        // closed goals over every built-in type constructor with analytically known truth values
        out.count("fragment:constructor-zoo");
        crate::props::c01::run_zoo(out, &mut r, "C02");
        return;
    }
    // non-increasing programs only: every derivation stays inside the goal's sub-terms, so the model is exact and the
    // solvers' limits are never reached.
    let cfg = GenCfg { coinductive_pct: if ctx.k % 3 == 0 { 40 } else { 0 }, ..Default::default() };
    // every 8th case: the propositional fragment (one struct, dense cycles with base cases, several clauses per atom;
    // all of its goals are closed)
    let propositional = ctx.k % 8 == 6;
    let prop_coinductive = (ctx.k / 8) % 3 == 2;
    let prog = if propositional { gen_propositional(&mut r, prop_coinductive) } else { gen_program(&mut r, &cfg) };
    let prop_goals = if propositional { gen_propositional_goals(&mut r, &prog, 8, !prop_coinductive) } else { vec![] };
    assert!(prog.non_increasing());
    let text = program_text(&prog);
    let configs: Vec<SolverChoice> = vec![
        SolverChoice::slg(10, None),
        SolverChoice::slg(7, None),
        SolverChoice::Recursive { overflow_depth: 100, caching_enabled: true, max_size: 30 },
        SolverChoice::Recursive { overflow_depth: 40, caching_enabled: true, max_size: 12 },
    ];
    let loaded: Vec<_> = configs.iter().filter_map(|c| load(&text, *c, false).ok().map(|l| (*c, l))).collect();
    if loaded.len() != configs.len() {
        out.inconclusive("generated program failed to lower");
        return;
    }
    for gi in 0..8 {
        let gcfg = GoalCfg { closed_only: true, allow_not: true, allow_eq: false, need_exists: false };
        let (goal, exs) = if propositional { (prop_goals[gi].clone(), vec![]) } else { gen_goal(&mut r, &prog, &gcfg) };
        assert!(exs.is_empty());
        let gtext = goal_text(&goal);
        let mut phs = vec![];
        collect_phs(&goal, &mut phs);
        let uni = build_universe(&prog, &phs, 2);
        let mut sem = Sem::new(&prog, 8);
        // exact model verdict for the closed goal
        let verdict = sem.eval(&uni, &mut vec![], &goal, &Default::default());
        let reach = sem.atoms_evaluated;
        let mut ps = vec![];
        goal_preds(&goal, &mut ps);
        let max_ty = ps.iter().map(|p| p.size()).max().unwrap_or(0);
        for (ci, (choice, l)) in loaded.iter().enumerate() {
            // reduced limits only when the derivation is comfortably below them
            let reduced = ci == 1 || ci == 3;
            // the property is about searches that stay within the configured limits
            let limit_ok = if reduced { max_ty <= 4 && reach <= 15 } else { max_ty <= 8 };
            if !limit_ok {
                out.count("skipped:reduced-limits-too-close");
                continue;
            }
            let rec = with_program(l, || lower_and_peel(l, &gtext, &exs).map(|p| solve_translated(l, *choice, &p, 300_000)));
            let rec = match rec {
                Ok(r) => r,
                Err(e) => {
                    out.inconclusive(&format!("goal failed to lower: {}", crate::case::truncate(&e, 60)));
                    continue;
                }
            };
            out.evals += 1;
            let ans = match &rec.ans {
                Ok(a) => a,
                Err(_) => {
                    note_non_answer(out, &rec);
                    continue;
                }
            };
            out.count(&format!("answer:{}:{}", solver_desc(choice), ans.kind()));
            let d = || detail(&text, &gtext, choice).set("answer", rec.shown.as_str()).set("model_verdict", format!("{:?}", verdict));
            match ans {
                MAnswer::Unique(..) | MAnswer::None => {
                    if let Err(e) = judge::check(&mut sem, &uni, &goal, &[], ans) {
                        // F11 (hook H4 evidence) only ever loses answers
                        let sig = if rec.stale_delayed_table && matches!(ans, MAnswer::None) { Some("slg:stale-delayed-answer-table") } else { None };
                        out.violation(sig, format!("{} answered `{}` on a closed goal: {}", solver_desc(choice), rec.shown, e), d());
                    } else if verdict != Tri::Unknown {
                        out.count(&format!("nontrivial:definite-and-correct:{}", if matches!(ans, MAnswer::None) { "none" } else { "unique" }));
                        out.nt(&format!("{}|{}|{}|{}", text, gtext, solver_desc(choice), rec.shown));
                    }
                }
                _ => {
                    // Ambiguous on a closed, in-limit goal of a non-increasing program
                    out.violation(None, format!("{} answered `{}` on a closed in-limit goal (model says {:?})", solver_desc(choice), rec.shown, verdict), d());
                }
            }
        }
        if gi == 0 {
            out.sample = Some(J::obj().set("program", text.as_str()).set("goal", gtext.as_str()).set("model_verdict", format!("{:?}", verdict)));
        }
    }
}
