//! C08 – built-in traits (Sized, Copy, Clone, Tuple, FnPtr) follow the language's structural rules combined with the
//! program's explicit impls.
use crate::case::{CaseOut, Ctx, Tier};
use crate::common::*;
use crate::drive::*;
use crate::json::J;
use crate::model::*;
use crate::rng::Rng;

pub fn cases(t: Tier) -> u64 {
    match t {
        Tier::Quick => 400,
        Tier::Thorough => 6000,
    }
}

/// The structural rules, written from the property statement (not from chalk's clause builders).
pub fn builtin_rule(prog: &MProgram, p: &MPred) -> Option<Vec<Vec<MPred>>> {
    let tr = prog.tr(&p.tr);
    let lang = tr.lang.as_deref()?;
    let (n, args) = match &p.args[0] {
        MTy::App(n, a) => (n.as_str(), a),
        _ => return None,
    };
    let same = |t: &MTy| MPred::new(&p.tr, vec![t.clone()]);
    let fact: Vec<Vec<MPred>> = vec![vec![]];
    let none: Vec<Vec<MPred>> = vec![];
    let is_scalar = SCALARS.contains(&n);
    Some(match lang {
        "sized" => match n {
            "@tuple" => match args.last() {
                None => fact,
                Some(l) => vec![vec![same(l)]],
            },
            "@array" | "@ref" | "@refmut" | "@ptr" | "@ptrmut" | "@fn" | "@never" => fact,
            "@slice" | "@str" => none,
            _ if n.starts_with("@dyn:") => none,
            _ if is_scalar => fact,
            _ => match prog.st(n) {
                Some(st) if st.variants.is_empty() => match st.fields.last() {
                    None => fact,
                    Some(f) => vec![vec![same(&f.subst(&|i| args[i].clone()))]],
                },
                Some(_) => fact, // enums are always Sized
                None => none,
            },
        },
        "copy" | "clone" => match n {
            "@tuple" => vec![args.iter().map(same).collect()],
            "@array" => vec![vec![same(&args[0])]],
            "@fn" => fact,
            _ => none,
        },
        "tuple_trait" => {
            if n == "@tuple" {
                fact
            } else {
                none
            }
        }
        "fn_ptr_trait" => {
            if n == "@fn" {
                fact
            } else {
                none
            }
        }
        _ => return None,
    })
}

fn gen_bty(r: &mut Rng, structs: &[(String, usize)], params: usize, depth: usize) -> MTy {
    if depth == 0 || r.chance(35) {
        return match r.below(8) {
            0 if params > 0 => MTy::Var(r.below(params)),
            1 => MTy::nullary("@str"),
            2 => MTy::nullary("@never"),
            3 => MTy::nullary("@dyn:Obj"),
            4 | 5 => MTy::nullary(*r.pick(SCALARS)),
            _ => {
                let nullary: Vec<&(String, usize)> = structs.iter().filter(|s| s.1 == 0).collect();
                if nullary.is_empty() {
                    MTy::nullary("u8")
                } else {
                    MTy::nullary(&r.pick(&nullary).0)
                }
            }
        };
    }
    match r.below(10) {
        0 => {
            let n = r.below(4);
            MTy::app("@tuple", (0..n).map(|_| gen_bty(r, structs, params, depth - 1)).collect())
        }
        1 => MTy::app("@array", vec![gen_bty(r, structs, params, depth - 1)]),
        2 => MTy::app("@slice", vec![gen_bty(r, structs, params, depth - 1)]),
        3 => MTy::app("@ref", vec![gen_bty(r, structs, params, depth - 1)]),
        4 => MTy::app("@refmut", vec![gen_bty(r, structs, params, depth - 1)]),
        5 => MTy::app(if r.chance(50) { "@ptr" } else { "@ptrmut" }, vec![gen_bty(r, structs, params, depth - 1)]),
        6 => {
            // fn pointers: sized argument and return types only (keeps lowering happy)
            let n = r.below(3);
            let mut a: Vec<MTy> = (0..n).map(|_| MTy::nullary(*r.pick(SCALARS))).collect();
            a.push(MTy::nullary(*r.pick(SCALARS)));
            MTy::app("@fn", a)
        }
        _ => {
            if structs.is_empty() {
                return MTy::nullary("u8");
            }
            let (n, ar) = r.pick(structs).clone();
            MTy::app(&n, (0..ar).map(|_| gen_bty(r, structs, params, depth - 1)).collect())
        }
    }
}

pub fn gen_builtin(r: &mut Rng) -> (MProgram, Vec<MPred>) {
    let mut p = MProgram::default();
    let lang_all = [("Sized", "sized"), ("Copy", "copy"), ("Clone", "clone"), ("Tuple", "tuple_trait"), ("FnPtr", "fn_ptr_trait")];
    for (n, l) in lang_all.iter() {
        if r.chance(75) || *n == "Sized" {
            p.traits.push(MTrait { name: n.to_string(), lang: Some(l.to_string()), ..Default::default() });
        }
    }
    // an object-safe trait for `dyn Obj` (printed by hand below because of the #[object_safe] attribute)
    let nst = 2 + r.below(4);
    let mut sigs: Vec<(String, usize)> = vec![];
    for i in 0..nst {
        // some structs declare a lifetime and/or a const parameter before their type parameters (`LtS1<'a, V0>`)
        let lead = match r.below(8) {
            0 => "Lt",
            1 => "Cn",
            2 => "Lc",
            _ => "",
        };
        sigs.push((format!("{}S{}", lead, i), if r.chance(40) { 1 + r.below(2) } else { 0 }));
    }
    for i in 0..nst {
        let (name, ar) = sigs[i].clone();
        let nf = r.below(4);
        // fields may mention earlier structs only (no infinitely sized types needed here)
        let mut fields: Vec<MTy> = (0..nf).map(|_| gen_bty(r, &sigs[..i], ar, 2)).collect();
        if ar > 0 && r.chance(55) {
            // the tail is one of the struct's own parameters: sizedness depends on the argument
            fields.push(MTy::Var(r.below(ar)));
        }
        let nf = fields.len();
        let variants = if r.chance(25) {
            let k = r.below(nf + 1);
            vec![k, nf - k]
        } else {
            vec![]
        };
        p.structs.push(MStruct { name, nparams: ar, fields, variants, ..Default::default() });
    }
    // explicit (libcore-style and user) impls of Copy / Clone
    for tn in ["Copy", "Clone"] {
        if !p.traits.iter().any(|t| t.name == tn) {
            continue;
        }
        for s in SCALARS.iter() {
            if r.chance(60) {
                p.impls.push(MImpl { head: MPred::new(tn, vec![MTy::nullary(s)]), positive: true, ..Default::default() });
            }
        }
        if r.chance(50) {
            p.impls.push(MImpl { nvars: 1, head: MPred::new(tn, vec![MTy::app("@ref", vec![MTy::Var(0)])]), positive: true, ..Default::default() });
        }
        if r.chance(40) {
            p.impls.push(MImpl { nvars: 1, head: MPred::new(tn, vec![MTy::app("@ptr", vec![MTy::Var(0)])]), positive: true, ..Default::default() });
        }
        if r.chance(30) {
            p.impls.push(MImpl { head: MPred::new(tn, vec![MTy::nullary("@never")]), positive: true, ..Default::default() });
        }
        for (name, ar) in &sigs {
            if r.chance(35) {
                let self_ty = MTy::app(name, (0..*ar).map(MTy::Var).collect());
                let wheres = if *ar == 1 && r.chance(60) { vec![MPred::new(tn, vec![MTy::Var(0)])] } else { vec![] };
                p.impls.push(MImpl { nvars: *ar, head: MPred::new(tn, vec![self_ty]), wheres, positive: true, ..Default::default() });
            }
        }
    }
    // goals
    let mut goals = vec![];
    for _ in 0..14 {
        let t = gen_bty(r, &sigs, 0, 3);
        let tr = r.pick(&p.traits).name.clone();
        goals.push(MPred::new(&tr, vec![t]));
    }
    // Sized along "tail chains": tuples / structs whose last element or field is again a tuple / struct ..., ending in
    // a sized or an unsized leaf
    if p.traits.iter().any(|t| t.name == "Sized") {
        for _ in 0..5 {
            let depth = 1 + r.below(4);
            let t = gen_tail_chain(r, &p, depth);
            goals.push(MPred::new("Sized", vec![t]));
        }
    }
    (p, goals)
}

fn gen_tail_chain(r: &mut Rng, p: &MProgram, depth: usize) -> MTy {
    let sized_leaf = |r: &mut Rng| match r.below(4) {
        0 => MTy::app("@ref", vec![MTy::nullary("@str")]),
        1 => MTy::app("@array", vec![MTy::nullary("u8")]),
        _ => MTy::nullary(*r.pick(SCALARS)),
    };
    if depth == 0 {
        return match r.below(6) {
            0 => MTy::nullary("@str"),
            1 => MTy::app("@slice", vec![MTy::nullary("u8")]),
            2 => MTy::nullary("@dyn:Obj"),
            _ => sized_leaf(r),
        };
    }
    let with_tail: Vec<&MStruct> = p.structs.iter().filter(|s| s.variants.is_empty() && matches!(s.fields.last(), Some(MTy::Var(_)))).collect();
    if !with_tail.is_empty() && r.chance(50) {
        let st = *r.pick(&with_tail);
        let tail_param = match st.fields.last() {
            Some(MTy::Var(i)) => *i,
            _ => 0,
        };
        let args = (0..st.nparams).map(|i| if i == tail_param { gen_tail_chain(r, p, depth - 1) } else { sized_leaf(r) }).collect();
        return MTy::app(&st.name, args);
    }
    let n = r.below(3);
    let mut elems: Vec<MTy> = (0..n).map(|_| sized_leaf(r)).collect();
    elems.push(gen_tail_chain(r, p, depth - 1));
    MTy::app("@tuple", elems)
}

/// Rough count of the nodes chalk's size limit sees (a `dyn` type carries a binder with its bounds inside).
fn chalk_nodes(t: &MTy) -> usize {
    match t {
        MTy::App(n, a) => (if n.starts_with("@dyn:") { 4 } else { 1 }) + a.iter().map(chalk_nodes).sum::<usize>(),
        _ => 1,
    }
}

pub fn builtin_program_text(p: &MProgram) -> String {
    format!("#[object_safe] trait Obj {{ }}\n{}", program_text(p))
}

pub fn gen_builtin_case(r: &mut Rng) -> (MProgram, Vec<String>) {
    // C04 prints through program_text; add Obj as an ordinary trait there and avoid dyn types
    let (mut p, goals) = gen_builtin(r);
    p.traits.push(MTrait { name: "Obj".into(), ..Default::default() });
    let texts = goals.iter().map(pred_text).filter(|t| !t.contains("dyn Obj")).collect();
    p.structs.iter_mut().for_each(|s| {
        for f in s.fields.iter_mut() {
            strip_dyn(f);
        }
    });
    (p, texts)
}

fn strip_dyn(t: &mut MTy) {
    match t {
        MTy::App(n, a) => {
            if n.starts_with("@dyn:") {
                *t = MTy::nullary("@str");
            } else {
                a.iter_mut().for_each(strip_dyn);
            }
        }
        _ => {}
    }
}

pub fn run(ctx: &Ctx, out: &mut CaseOut) {
    let mut r = Rng::for_case(ctx.prop, ctx.seed, ctx.k);
    let (prog, goals) = gen_builtin(&mut r);
    let text = builtin_program_text(&prog);
    let mut sem = Sem::new(&prog, 9);
    sem.builtin = Some(builtin_rule);
    let mut cleans = vec![];
    let verdicts: Vec<Tri> = goals
        .iter()
        .map(|g| {
            let v = sem.pred(&[], g);
            cleans.push(sem.last_clean);
            v
        })
        .collect();
    out.sample = Some(J::obj().set("program", text.as_str()).set("goals", J::Arr(goals.iter().zip(&verdicts).take(5).map(|(g, v)| J::Str(format!("{} => model {:?}", pred_text(g), v))).collect())));
    for choice in both() {
        let l = match load(&text, choice, false) {
            Ok(l) => l,
            Err(e) => {
                out.inconclusive(&format!("generated program failed to lower: {}", crate::case::truncate(&e, 100)));
                return;
            }
        };
        with_program(&l, || {
            for (gi, g) in goals.iter().enumerate() {
                let gtext = pred_text(g);
                let p = match lower_and_peel(&l, &gtext, &[]) {
                    Ok(p) => p,
                    Err(e) => {
                        out.inconclusive(&format!("goal failed to lower: {}", crate::case::truncate(&e, 80)));
                        continue;
                    }
                };
                let rec = solve_translated(&l, choice, &p, 300_000);
                let ans = match &rec.ans {
                    Ok(a) => a,
                    Err(_) => {
                        note_non_answer(out, &rec);
                        continue;
                    }
                };
                out.evals += 1;
                let lang = prog.tr(&g.tr).lang.clone().unwrap_or_default();
                out.count(&format!("answer:{}:{}:{}", solver_name(&choice), lang, ans.kind()));
                let expect = verdicts[gi];
                let bad = match (ans, expect) {
                    (MAnswer::Unique(..), Tri::False) => Some("holds according to the solver but not according to the structural rules + explicit impls"),
                    (MAnswer::None, Tri::True) => Some("does not hold according to the solver but holds by the structural rules + explicit impls"),
                    (MAnswer::Unique(..), _) | (MAnswer::None, _) => None,
                    (_, Tri::Unknown) => None,
                    (_, _) if cleans[gi] && chalk_nodes(&g.args[0]) <= 7 => Some("ambiguous answer on a closed in-limit goal"),
                    _ => None,
                };
                if let Some(why) = bad {
                    out.violation(None, format!("{} answered `{}` for `{}`: {}", solver_name(&choice), rec.shown, gtext, why), detail(&text, &gtext, &choice).set("answer", rec.shown.as_str()).set("model_verdict", format!("{:?}", expect)));
                } else if expect != Tri::Unknown {
                    let head = match &g.args[0] {
                        MTy::App(n, _) if n.starts_with('@') => n.clone(),
                        MTy::App(n, _) if SCALARS.contains(&n.as_str()) => "scalar".into(),
                        _ => "adt".into(),
                    };
                    out.count(&format!("nontrivial:{}:{}:{:?}", lang, head, expect));
                    out.nt(&format!("{}|{}|{}", text, gtext, solver_name(&choice)));
                }
            }
        });
    }
}
