//! C11 – interrupted solving is a safe approximation; later solves are unaffected. Interruption schedules are
//! enumerated (the callback returns false on its k-th invocation only / from the k-th on / always / never).
use crate::case::{CaseOut, Ctx, Tier};
use crate::common::*;
use crate::drive::*;
use crate::json::J;
use crate::model::{build_universe, collect_exists, collect_phs, Sem};
use crate::props::workload::workload;
use crate::rng::Rng;
use chalk_ir::*;
use chalk_solve::{Guidance, Solution};
use std::cell::Cell;

pub fn cases(t: Tier) -> u64 {
    match t {
        Tier::Quick => 240,
        Tier::Thorough => 3000,
    }
}

fn subst_of(s: &Solution<I>) -> Option<Canonical<Substitution<I>>> {
    match s {
        Solution::Unique(c) => Some(Canonical { binders: c.binders.clone(), value: c.value.subst.clone() }),
        Solution::Ambig(Guidance::Definite(c)) => Some(c.clone()),
        _ => None,
    }
}

/// Is `limited` the full answer or a weaker ambiguous answer that does not contradict `full`?
fn compatible(l: &Loaded, limited: &Option<Solution<I>>, full: &Option<Solution<I>>) -> Result<(), String> {
    if limited == full {
        return Ok(());
    }
    match (limited, full) {
        (None, _) => Err("limited solve says 'No possible solution' but the full answer differs".into()),
        (Some(Solution::Unique(_)), _) => Err("limited solve gives a Unique answer that is not the full answer".into()),
        (Some(Solution::Ambig(Guidance::Unknown)), _) | (Some(Solution::Ambig(Guidance::Suggested(_))), _) => Ok(()),
        // definite guidance is a claim about every solution; when the full answer gives no such guidance the limited
        // answer is not weaker but stronger
        (Some(Solution::Ambig(Guidance::Definite(_))), Some(Solution::Ambig(Guidance::Unknown))) | (Some(Solution::Ambig(Guidance::Definite(_))), Some(Solution::Ambig(Guidance::Suggested(_)))) => {
            Err("NEEDS-MODEL".into())
        }
        (Some(Solution::Ambig(Guidance::Definite(d))), Some(f)) => match subst_of(f) {
            // definite guidance must generalise the full answer's definite substitution
            Some(fs) => match crate::props::c04::is_instance_of_pub(&fs, d, &*l.program) {
                Ok(true) => Ok(()),
                Ok(false) => Err("limited solve's definite guidance excludes the full answer's substitution".into()),
                Err(e) => Err(format!("INCONCLUSIVE:{}", e)),
            },
            None => Ok(()),
        },
        (Some(Solution::Ambig(Guidance::Definite(_))), None) => Ok(()),
    }
}

/// Does a trait of one of the goal's atoms lie on a cycle of the program's "impl of X requires Y" graph?
fn goal_traits_in_cycle(prog: &crate::model::MProgram, g: &crate::model::MGoal) -> bool {
    let mut ps = vec![];
    crate::model::goal_preds(g, &mut ps);
    let succ = |t: &str| -> Vec<String> { prog.impls.iter().filter(|im| im.head.tr == t).flat_map(|im| im.wheres.iter().map(|w| w.tr.clone())).collect() };
    ps.iter().any(|p| {
        // is p.tr reachable from one of its own successors?
        let mut seen: std::collections::BTreeSet<String> = Default::default();
        let mut todo = succ(&p.tr);
        while let Some(t) = todo.pop() {
            if t == p.tr {
                return true;
            }
            if seen.insert(t.clone()) {
                todo.extend(succ(&t));
            }
        }
        false
    })
}

pub fn run(ctx: &Ctx, out: &mut CaseOut) {
    let mut r = Rng::for_case(ctx.prop, ctx.seed, ctx.k);
    let w = workload(&mut r, ctx.k, 0, 5);
    out.sample = Some(J::obj().set("program", w.text.as_str()).set("goals", J::Arr(w.goals.iter().take(3).map(|g| J::Str(g.0.clone())).collect())));
    for choice in both() {
        let l = match load(&w.text, choice, false) {
            Ok(l) => l,
            Err(_) => {
                out.inconclusive("generated program failed to lower");
                return;
            }
        };
        with_program(&l, || {
            let peeled: Vec<Option<Peeled>> = w.goals.iter().map(|(g, e, _)| lower_and_peel(&l, g, e).ok()).collect();
            let fresh: Vec<Option<Option<Solution<I>>>> = peeled
                .iter()
                .map(|p| {
                    p.as_ref().and_then(|p| {
                        let db = FaultDb::new(&*l.program, solver_name(&choice));
                        db.budget.set(300_000);
                        let mut s = choice.into_solver();
                        match solve(&mut *s, &db, &p.goal) {
                            Outcome::Answer(a) => Some(a),
                            _ => None,
                        }
                    })
                })
                .collect();
            for gi in 0..w.goals.len() {
                let (p, full) = match (&peeled[gi], &fresh[gi]) {
                    (Some(p), Some(f)) => (p, f),
                    _ => continue,
                };
                // K = number of should_continue invocations of an uninterrupted limited solve
                let count = Cell::new(0u64);
                {
                    let db = FaultDb::new(&*l.program, solver_name(&choice));
                    db.budget.set(300_000);
                    let mut s = choice.into_solver();
                    let o = solve_limited(&mut *s, &db, &p.goal, &|| {
                        count.set(count.get() + 1);
                        true
                    });
                    match o {
                        Outcome::Answer(a) => {
                            out.evals += 1;
                            if &a != full {
                                out.violation(None, format!("{}: solve_limited with a callback that never interrupts gives `{}` but solve gives `{}`", solver_name(&choice), disp(&a), disp(full)), detail(&w.text, &w.goals[gi].0, &choice).set("schedule", "never"));
                                continue;
                            }
                            out.count("schedule:never:limited==full");
                        }
                        _ => continue,
                    }
                }
                let kmax = count.get();
                out.gauge("max_should_continue_invocations", kmax);
                // schedules
                let mut scheds: Vec<(u64, bool)> = vec![]; // (k, from_k_on)
                let ks: Vec<u64> = if kmax <= 24 { (0..=kmax).collect() } else { (0..24).map(|_| r.below(kmax as usize + 1) as u64).collect() };
                for k in ks {
                    scheds.push((k, false));
                    scheds.push((k, true));
                }
                for (k, from_on) in scheds {
                    let n = Cell::new(0u64);
                    let cb = || {
                        let i = n.get();
                        n.set(i + 1);
                        if from_on {
                            i < k
                        } else {
                            i != k
                        }
                    };
                    let db = FaultDb::new(&*l.program, solver_name(&choice));
                    db.budget.set(300_000);
                    let is_slg = solver_name(&choice) == "slg";
                    let mut slg_s = chalk_engine::solve::SLGSolver::<I>::new(10, None);
                    let mut other_s = choice.into_solver();
                    let s: &mut dyn chalk_solve::Solver<I> = if is_slg { &mut slg_s } else { &mut *other_s };
                    let o = solve_limited(&mut *s, &db, &p.goal, &cb);
                    let sched_name = format!("{} {}", if from_on { "from-invocation" } else { "only-invocation" }, k);
                    let lim = match o {
                        Outcome::Answer(a) => a,
                        Outcome::Panic(m) => {
                            out.violation(
                                crate::common::panic_signature(solver_name(&choice), &m, w.goals[gi].2.as_ref(), Some(&w.prog)).as_deref(),
                                format!("{} interrupted ({}): solve_limited panicked instead of returning an answer: {} at {}", solver_name(&choice), sched_name, crate::case::truncate(&m, 120), last_panic_loc()),
                                detail(&w.text, &w.goals[gi].0, &choice).set("schedule", sched_name.as_str()).set("panic", m.as_str()),
                            );
                            continue;
                        }
                        _ => {
                            out.count("limited-solve-over-budget(see C09)");
                            continue;
                        }
                    };
                    out.evals += 1;
                    let interrupted = n.get() > k;
                    let d = || {
                        detail(&w.text, &w.goals[gi].0, &choice)
                            .set("schedule", sched_name.as_str())
                            .set("invocations_uninterrupted", kmax)
                            .set("limited_answer", disp(&lim))
                            .set("full_answer", disp(full))
                    };
                    match compatible(&l, &lim, full) {
                        Ok(()) => {
                            out.count(&format!("limited-compatible:{}:{}", solver_name(&choice), if &lim == full { "same-as-full" } else { "weaker-ambiguous" }));
                        }
                        Err(e) if e.starts_with("INCONCLUSIVE") => out.inconclusive("instance check failed"),
                        Err(e) if e == "NEEDS-MODEL" => {
                            // The full answer gives no guidance at all, the limited one gives definite guidance. That does not
                            // contradict the full answer as long as the guidance is *true* (excludes no solution of the goal);
                            // this is decided against the reference semantics where the goal has a structured form.
                            let verdict = match (&w.goals[gi].2, &peeled[gi]) {
                                (Some(mg), Some(p)) => match translate(&l.program, p, &lim) {
                                    Ok(ans) => {
                                        let mut phs = vec![];
                                        collect_phs(mg, &mut phs);
                                        let mut ex = vec![];
                                        collect_exists(mg, &mut ex);
                                        let uni = build_universe(&w.prog, &phs, 3);
                                        let mut sem = Sem::new(&w.prog, 5);
                                        Some(crate::judge::check(&mut sem, &uni, mg, &ex, &ans).map(|_| ()))
                                    }
                                    Err(_) => None,
                                },
                                _ => None,
                            };
                            match verdict {
                                Some(Ok(())) => out.count(&format!("limited-compatible:{}:definite-guidance-true-in-model", solver_name(&choice))),
                                Some(Err(m)) => {
                                    // F35: the recursive solver's interrupted fixed-point iteration hands out guidance built
                                    // from provisional results of a cycle through the goal's own trait
                                    let cyc = solver_name(&choice) == "recursive" && w.goals[gi].2.as_ref().map_or(false, |g| goal_traits_in_cycle(&w.prog, g));
                                    out.violation(if cyc { Some("recursive:interrupted-guidance-from-cyclic-provisional-result") } else { None }, format!("{} interrupted ({}): limited solve claims definite guidance that the full answer does not give and that excludes a solution ({}): limited `{}` vs full `{}`", solver_name(&choice), sched_name, crate::case::truncate(&m, 160), disp(&lim), disp(full)), d());
                                    continue;
                                }
                                None => out.count("limited-definite-vs-full-unknown(no structured goal; not judged)"),
                            }
                        }
                        Err(e) => {
                            // F10: on coinductive goals with unknowns the recursive solver's answers grow with every iteration,
                            // so an interrupted and an uninterrupted search stop at different towers
                            // F35: a definite (Unique / definite-guidance) limited answer of the recursive solver that differs
                            // from the full one, on a goal whose trait lies on a cycle of the impl-requires graph
                            let definite_lim = matches!(&lim, Some(Solution::Unique(_)) | Some(Solution::Ambig(Guidance::Definite(_))));
                            let sig = if !is_slg && db.nonground_coinductive.get() {
                                Some("recursive:coinductive-nonground:divergence")
                            } else if !is_slg && definite_lim && w.goals[gi].2.as_ref().map_or(false, |g| goal_traits_in_cycle(&w.prog, g)) {
                                Some("recursive:interrupted-guidance-from-cyclic-provisional-result")
                            } else {
                                None
                            };
                            out.violation(sig, format!("{} interrupted ({}): {}: limited `{}` vs full `{}`", solver_name(&choice), sched_name, e, disp(&lim), disp(full)), d());
                            continue;
                        }
                    }
                    // later solves on the same solver: same goal, then a sibling goal, must equal a fresh solver's
                    let mut ok = true;
                    for &gj in &[gi, (gi + 1) % w.goals.len()] {
                        let (pj, fj) = match (&peeled[gj], &fresh[gj]) {
                            (Some(p), Some(f)) => (p, f),
                            _ => continue,
                        };
                        let db2 = FaultDb::new(&*l.program, solver_name(&choice));
                        db2.budget.set(300_000);
                        let stale_before = is_slg && crate::common::slg_goal_table_stale(&mut slg_s, &pj.goal);
                        let o2 = if is_slg { solve(&mut slg_s, &db2, &pj.goal) } else { solve(&mut *other_s, &db2, &pj.goal) };
                        match o2 {
                            Outcome::Answer(a) => {
                                out.evals += 1;
                                if &a != fj {
                                    ok = false;
                                    let stale = is_slg && (stale_before || crate::common::slg_stale_table(&mut slg_s, &pj.goal));
                                    out.violation(
                                        if stale && a.is_none() && fj.is_some() {
                                            Some("slg:stale-delayed-answer-table")
                                        } else if is_slg && fj.is_none() && a.is_some() && crate::common::fresh_slg_stale(&l, &pj.goal) {
                                            // it is the fresh solve that lost the answer (F11 within one search)
                                            Some("slg:stale-delayed-answer-table")
                                        } else if is_slg && ((trivial_unique(&a) && fj.as_ref().map_or(false, |s| s.is_ambig())) || (trivial_unique(fj) && a.as_ref().map_or(false, |s| s.is_ambig()))) {
                                            // F12: tables left half-explored by the interrupted solve change the order in which
                                            // answers arrive
                                            Some("slg:trivial-answer-green-cut-order")
                                        } else if is_slg {
                                            let warm_sub = slg_subsumed_answers(&mut slg_s);
                                            slg_order_signature(&disp(&a), warm_sub, &disp(fj), fresh_slg_subsumed(&l, &pj.goal))
                                        } else {
                                            None
                                        },
                                        format!("{}: after a solve interrupted by schedule ({}), solving `{}` on the same solver gives `{}` but a fresh solver gives `{}`", solver_name(&choice), sched_name, w.goals[gj].0, disp(&a), disp(fj)),
                                        d().set("later_goal", w.goals[gj].0.as_str()).set("later_answer", disp(&a)).set("fresh_answer", disp(fj)),
                                    );
                                    break;
                                }
                            }
                            _ => {
                                out.count("later-solve-panicked(see C09)");
                            }
                        }
                    }
                    if ok && interrupted {
                        out.count(&format!("after-interruption==fresh:{}", solver_name(&choice)));
                        out.nt(&format!("{}|{}|{}|{}", w.text, w.goals[gi].0, solver_name(&choice), sched_name));
                    }
                }
            }
        });
    }
}

fn trivial_unique(s: &Option<Solution<I>>) -> bool {
    matches!(s, Some(Solution::Unique(c)) if !c.value.subst.is_empty(chalk_integration::interner::ChalkIr) && c.value.subst.is_identity_subst(chalk_integration::interner::ChalkIr))
}
