//! C20 – the orphan check implements the orphan rules.
use crate::case::{CaseOut, Ctx, Tier};
use crate::drive::*;
use crate::json::J;
use crate::rng::Rng;
use chalk_integration::db::ChalkDatabase;
use chalk_integration::query::LoweringDatabase;
use std::panic::{catch_unwind, AssertUnwindSafe};

pub fn cases(t: Tier) -> u64 {
    match t {
        Tier::Quick => 400,
        Tier::Thorough => 8000,
    }
}

#[derive(Clone, Debug, PartialEq)]
enum OTy {
    /// struct: (name, local?, fundamental?, args)
    Adt(&'static str, bool, bool, Vec<OTy>),
    Scalar(&'static str),
    Tuple(Vec<OTy>),
    Param(usize),
}

const STRUCTS: &[(&str, bool, bool, usize)] = &[
    ("L0", true, false, 0),
    ("L1", true, false, 1),
    ("L2", true, false, 2),
    ("U0", false, false, 0),
    ("U1", false, false, 1),
    ("Fu", false, true, 1),
    ("Fl", true, true, 1),
];

fn text(t: &OTy) -> String {
    match t {
        OTy::Adt(n, _, _, a) => {
            if a.is_empty() {
                n.to_string()
            } else {
                format!("{}<{}>", n, a.iter().map(text).collect::<Vec<_>>().join(", "))
            }
        }
        OTy::Scalar(s) => s.to_string(),
        OTy::Tuple(a) => match a.len() {
            0 => "()".into(),
            1 => format!("({},)", text(&a[0])),
            _ => format!("({})", a.iter().map(text).collect::<Vec<_>>().join(", ")),
        },
        OTy::Param(i) => format!("P{}", i),
    }
}

/// The rules of the statement, evaluated on the AST.
fn is_local(t: &OTy) -> bool {
    match t {
        // looking through fundamental type constructors
        OTy::Adt(_, local, fundamental, a) => {
            if *fundamental && !*local {
                a.iter().any(is_local)
            } else {
                *local
            }
        }
        // built-in types count as upstream
        OTy::Scalar(_) | OTy::Tuple(_) | OTy::Param(_) => false,
    }
}
fn fully_visible(t: &OTy) -> bool {
    match t {
        OTy::Adt(_, _, _, a) | OTy::Tuple(a) => a.iter().all(fully_visible),
        OTy::Scalar(_) => true,
        OTy::Param(_) => false,
    }
}
fn allowed(trait_local: bool, args: &[OTy]) -> bool {
    trait_local || (0..args.len()).any(|i| is_local(&args[i]) && args[..i].iter().all(fully_visible))
}

fn gen_ty(r: &mut Rng, nparams: usize, d: usize) -> OTy {
    // towers of fundamental constructors around something local / upstream / a parameter (the rule looks *through* them)
    if d >= 2 && r.chance(12) {
        let mut t = gen_ty(r, nparams, 0);
        for _ in 0..1 + r.below(3) {
            t = if r.chance(75) { OTy::Adt("Fu", false, true, vec![t]) } else { OTy::Adt("U1", false, false, vec![t]) };
        }
        return t;
    }
    match r.below(if d == 0 { 6 } else { 10 }) {
        0 | 1 if nparams > 0 => OTy::Param(r.below(nparams)),
        0..=2 => OTy::Scalar(["u32", "bool", "i32", "f64", "str"][r.below(5)]),
        3 => OTy::Adt("L0", true, false, vec![]),
        4 => OTy::Adt("U0", false, false, vec![]),
        5 => OTy::Tuple(vec![]),
        6 => OTy::Tuple((0..1 + r.below(2)).map(|_| gen_ty(r, nparams, d - 1)).collect()),
        _ => {
            let (n, l, f, ar) = *r.pick(STRUCTS);
            OTy::Adt(n, l, f, (0..ar).map(|_| gen_ty(r, nparams, d.saturating_sub(1))).collect())
        }
    }
}

pub fn run(ctx: &Ctx, out: &mut CaseOut) {
    let mut r = Rng::for_case(ctx.prop, ctx.seed, ctx.k);
    let decls = "struct L0 { } struct L1<T> { } struct L2<T, U> { } #[upstream] struct U0 { } #[upstream] struct U1<T> { } #[upstream] #[fundamental] struct Fu<T> { } #[fundamental] struct Fl<T> { }\n";
    for _ in 0..6 {
        let trait_local = r.chance(25);
        let ntp = r.below(3); // trait parameters besides Self
        let nparams = r.below(3);
        let args: Vec<OTy> = (0..=ntp).map(|_| gen_ty(&mut r, nparams, 2)).collect();
        let tparams: Vec<String> = (0..ntp).map(|i| format!("X{}", i)).collect();
        let trait_decl = format!("{}trait Tr{} {{ }}\n", if trait_local { "" } else { "#[upstream] " }, if tparams.is_empty() { String::new() } else { format!("<{}>", tparams.join(", ")) });
        let iparams: Vec<String> = (0..nparams).map(|i| format!("P{}", i)).collect();
        let impl_text = format!(
            "impl{} Tr{} for {} {{ }}\n",
            if iparams.is_empty() { String::new() } else { format!("<{}>", iparams.join(", ")) },
            if ntp == 0 { String::new() } else { format!("<{}>", args[1..].iter().map(text).collect::<Vec<_>>().join(", ")) },
            text(&args[0])
        );
        let program = format!("{}{}{}", decls, trait_decl, impl_text);
        let expect = allowed(trait_local, &args);
        for choice in both() {
            let verdict = catch_unwind(AssertUnwindSafe(|| {
                let db = ChalkDatabase::with(&program, choice);
                match db.program_ir() {
                    Err(e) => Err(format!("does not lower: {}", e)),
                    Ok(_) => Ok(db.orphan_check().map_err(|e| e.to_string())),
                }
            }));
            out.evals += 1;
            let d = || J::obj().set("program", program.as_str()).set("impl", impl_text.trim()).set("solver", solver_desc(&choice)).set("rule_says", if expect { "allowed" } else { "rejected" });
            match verdict {
                Err(e) => {
                    out.violation(None, format!("orphan check panicked: {}", crate::case::truncate(&crate::case::panic_msg(&e), 160)), d());
                    return;
                }
                Ok(Err(e)) => {
                    out.inconclusive(&format!("generated program {}", crate::case::truncate(&e, 60)));
                    continue;
                }
                Ok(Ok(res)) => {
                    let got = match &res {
                        Ok(()) => true,
                        Err(e) if e.contains("orphan") => false,
                        Err(e) => {
                            out.inconclusive(&format!("unexpected error: {}", crate::case::truncate(e, 60)));
                            continue;
                        }
                    };
                    if got != expect {
                        out.violation(None, format!("{}: the orphan check {} `{}` but the orphan rules say it must be {}", solver_name(&choice), if got { "accepts" } else { "rejects" }, impl_text.trim(), if expect { "accepted" } else { "rejected" }), d().set("orphan_check", format!("{:?}", res)));
                    } else {
                        let first_local = args.iter().position(is_local);
                        out.count(&format!("agrees:{}:{}", if expect { "allowed" } else { "rejected" }, if trait_local { "local-trait".to_string() } else { format!("upstream-trait:first-local-arg={:?}", first_local) }));
                        out.nt(&format!("{}|{}|{}", trait_decl, impl_text, solver_name(&choice)));
                    }
                }
            }
        }
        if out.sample.is_none() {
            out.sample = Some(J::obj().set("trait", trait_decl.trim()).set("impl", impl_text.trim()).set("rule_says", if expect { "allowed" } else { "rejected" }));
        }
    }
}
