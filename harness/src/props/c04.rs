//! C04 – the two solvers never contradict each other (differential; no reference semantics).
use crate::case::{CaseOut, Ctx, Tier};
use crate::common::*;
use crate::corpus;
use crate::drive::*;
use crate::gen::*;
use crate::json::J;
use crate::model::*;
use crate::rng::Rng;
use chalk_ir::*;
use chalk_solve::infer::InferenceTable;
use chalk_solve::{Guidance, Solution};

const GEN_CASES_QUICK: u64 = 320;
const GEN_CASES_THOROUGH: u64 = 6000;

pub fn cases(t: Tier) -> u64 {
    let n = corpus_len() as u64;
    n + match t {
        Tier::Quick => GEN_CASES_QUICK,
        Tier::Thorough => GEN_CASES_THOROUGH,
    }
}

thread_local! {
    static CORPUS: Vec<corpus::CorpusEntry> = corpus::load_corpus();
}
fn corpus_len() -> usize {
    CORPUS.with(|c| c.len())
}

/// Strip lifetime constraints (the property does not compare them).
fn subst_of(s: &Solution<I>) -> Option<(bool, Canonical<Substitution<I>>)> {
    match s {
        Solution::Unique(c) => Some((true, Canonical { binders: c.binders.clone(), value: c.value.subst.clone() })),
        Solution::Ambig(Guidance::Definite(c)) => Some((false, c.clone())),
        _ => None,
    }
}

/// Is `inst` an instance of `gen` (both canonical substitutions for the same query)?  Decided with chalk-independent
/// reasoning where possible: instantiate `gen` with fresh variables, `inst` with fresh *placeholders-like* rigid
/// variables is not expressible, so we use one-way matching implemented here on the Debug-free structure via
/// unification in a scratch table and then check that none of `inst`'s own variables got bound.
fn is_instance_of(inst: &Canonical<Substitution<I>>, gen: &Canonical<Substitution<I>>, db: &dyn chalk_solve::RustIrDatabase<I>) -> Result<bool, String> {
    let interner = chalk_integration::interner::ChalkIr;
    let mut table: InferenceTable<I> = InferenceTable::new();
    // make room for every universe mentioned
    for _ in 0..8 {
        table.new_universe();
    }
    let a = table.instantiate_canonical(interner, inst.clone());
    let a_vars_snapshot = table.canonicalize(interner, a.clone()).quantified;
    let b = table.instantiate_canonical(interner, gen.clone());
    let env = Environment::new(interner);
    if a.len(interner) != b.len(interner) {
        return Err("substitutions of different length".into());
    }
    for (x, y) in a.iter(interner).zip(b.iter(interner)) {
        // lifetimes are not compared
        if x.lifetime(interner).is_some() {
            continue;
        }
        let r = std::panic::catch_unwind(std::panic::AssertUnwindSafe(|| table.relate(interner, db.unification_database(), &env, Variance::Invariant, x, y).is_ok()));
        match r {
            Ok(true) => {}
            Ok(false) => return Ok(false),
            Err(_) => return Err("relate panicked".into()),
        }
    }
    // `inst` is an instance iff unification did not have to refine `inst` itself
    let after = table.canonicalize(interner, a).quantified;
    Ok(after == a_vars_snapshot)
}

pub fn is_instance_of_pub(inst: &Canonical<Substitution<I>>, gen: &Canonical<Substitution<I>>, db: &dyn chalk_solve::RustIrDatabase<I>) -> Result<bool, String> {
    is_instance_of(inst, gen, db)
}

fn compare(out: &mut CaseOut, l: &Loaded, text: &str, gtext: &str, a: &Option<Solution<I>>, b: &Option<Solution<I>>, origin: &str) {
    let sa = disp(a);
    let sb = disp(b);
    out.count(&format!("pair:{}|{}", short(a), short(b)));
    let d = || J::obj().set("program", text).set("goal", gtext).set("slg", sa.as_str()).set("recursive", sb.as_str()).set("origin", origin);
    match (a, b) {
        (None, Some(Solution::Unique(_))) | (Some(Solution::Unique(_)), None) => {
            out.violation(None, format!("slg says `{}` but recursive says `{}`", sa, sb), d());
            return;
        }
        _ => {}
    }
    let (xa, xb) = match (a.as_ref().and_then(subst_of), b.as_ref().and_then(subst_of)) {
        (Some(x), Some(y)) => (x, y),
        _ => {
            if a.is_none() && b.is_none() || a.as_ref().map_or(false, |s| s.is_unique()) && b.as_ref().map_or(false, |s| s.is_unique()) {
                out.nt(&format!("{}|{}|{}|{}", text, gtext, sa, sb));
            }
            return;
        }
    };
    let nontrivial = !xa.1.value.is_empty(chalk_integration::interner::ChalkIr) || (xa.0 && xb.0);
    match (xa.0, xb.0) {
        (true, true) => {
            // both Unique: same substitution (up to lifetimes): mutual instance
            let r1 = is_instance_of(&xa.1, &xb.1, &*l.program);
            let r2 = is_instance_of(&xb.1, &xa.1, &*l.program);
            match (r1, r2) {
                (Ok(true), Ok(true)) => out.count("agree:unique-same-substitution"),
                (Ok(_), Ok(_)) => {
                    out.violation(None, format!("two Unique answers with different substitutions: slg `{}` vs recursive `{}`", sa, sb), d());
                    return;
                }
                _ => out.inconclusive("instance check failed"),
            }
        }
        (true, false) => match is_instance_of(&xa.1, &xb.1, &*l.program) {
            Ok(true) => out.count("agree:unique-instance-of-definite"),
            Ok(false) => {
                out.violation(None, format!("slg Unique `{}` is not an instance of recursive's definite guidance `{}`", sa, sb), d());
                return;
            }
            Err(_) => out.inconclusive("instance check failed"),
        },
        (false, true) => match is_instance_of(&xb.1, &xa.1, &*l.program) {
            Ok(true) => out.count("agree:unique-instance-of-definite"),
            Ok(false) => {
                out.violation(None, format!("recursive Unique `{}` is not an instance of slg's definite guidance `{}`", sb, sa), d());
                return;
            }
            Err(_) => out.inconclusive("instance check failed"),
        },
        (false, false) => out.count("both-ambiguous-definite(not compared)"),
    }
    if nontrivial {
        out.nt(&format!("{}|{}|{}|{}", text, gtext, sa, sb));
    }
}

fn short(a: &Option<Solution<I>>) -> &'static str {
    match a {
        None => "none",
        Some(Solution::Unique(_)) => "unique",
        Some(Solution::Ambig(Guidance::Definite(_))) => "definite",
        Some(Solution::Ambig(Guidance::Suggested(_))) => "suggested",
        Some(Solution::Ambig(Guidance::Unknown)) => "unknown",
    }
}

fn run_pair(out: &mut CaseOut, text: &str, goals: &[String], checked: bool, origin: &str) {
    let ls = match (load(text, slg(), checked), load(text, rec(), checked)) {
        (Ok(a), Ok(b)) => (a, b),
        _ => {
            out.count("program-did-not-lower(skipped)");
            return;
        }
    };
    for g in goals {
        let pa = with_program(&ls.0, || lower_goal_text(&ls.0, g));
        let goal = match pa {
            Ok(g) => g,
            Err(_) => {
                out.count("goal-did-not-lower(skipped)");
                continue;
            }
        };
        use chalk_solve::ext::GoalExt;
        let peeled = goal.into_peeled_goal(chalk_integration::interner::ChalkIr);
        // SLG through the concrete solver type so that hook H4 can show a stale delayed-answer table (F11)
        let (oa, fa, stale) = with_program(&ls.0, || {
            let db = FaultDb::new(&*ls.0.program, "slg");
            db.budget.set(400_000);
            let mut s = chalk_engine::solve::SLGSolver::<I>::new(10, None);
            let o = solve(&mut s, &db, &peeled);
            let stale = crate::common::slg_stale_table(&mut s, &peeled);
            (o, db.nonground_coinductive.get(), stale)
        });
        let (ob, _, fb) = with_program(&ls.1, || fresh_solve_budget(&ls.1, rec(), &peeled, 400_000));
        out.evals += 1;
        match (&oa, &ob) {
            (Outcome::Answer(a), Outcome::Answer(b)) => {
                // known root causes of disagreement are classified by the observed non-ground coinductive condition
                let before = out.violations.len();
                with_program(&ls.0, || compare(out, &ls.0, text, g, a, b, origin));
                if out.violations.len() > before {
                    let v = out.violations.last_mut().unwrap();
                    if stale && a.is_none() && b.is_some() {
                        // F11 only ever loses SLG answers
                        v.sig = Some("slg:stale-delayed-answer-table".into());
                    } else if fa || fb {
                        v.sig = Some("coinductive-nonground:solver-disagreement".into());
                    }
                }
            }
            _ => {
                out.count("solve-panicked-or-over-budget(not judged here; see C09)");
            }
        }
    }
}

pub fn fresh_solve_budget(l: &Loaded, choice: chalk_integration::SolverChoice, goal: &UGoal, budget: u64) -> (Outcome, u64, bool) {
    let db = FaultDb::new(&*l.program, solver_name(&choice));
    db.budget.set(budget);
    let mut s = choice.into_solver();
    let o = solve(&mut *s, &db, goal);
    (o, db.calls.get(), db.nonground_coinductive.get())
}

pub fn run(ctx: &Ctx, out: &mut CaseOut) {
    let nc = corpus_len() as u64;
    let mut r = Rng::for_case(ctx.prop, ctx.seed, ctx.k);
    if ctx.k < nc {
        let e = CORPUS.with(|c| c[ctx.k as usize].clone());
        if e.goals.is_empty() {
            out.count("corpus-entry-without-goals(skipped)");
            return;
        }
        out.count("corpus-entries");
        // original goals plus a few seeded mutations (swap two identifiers / drop a quantifier)
        let mut goals = e.goals.clone();
        for g in e.goals.iter().take(4) {
            if let Some(m) = mutate_goal(&mut r, g) {
                goals.push(m);
            }
        }
        run_pair(out, &e.program, &goals, false, &e.file);
        if out.sample.is_none() {
            out.sample = Some(J::obj().set("origin", e.file.as_str()).set("program", crate::case::truncate(&e.program, 400)).set("goal", e.goals[0].as_str()));
        }
        return;
    }
    // generated programs across all fragments
    let mode = (ctx.k - nc) % 13;
    if mode == 12 {
        // propositional fragment: dense cycles with base cases on one struct, closed conjunctions in every order
        let coinductive = ((ctx.k - nc) / 13) % 3 == 2;
        let p = gen_propositional(&mut r, coinductive);
        let goals: Vec<String> = gen_propositional_goals(&mut r, &p, 12, !coinductive).iter().map(goal_text).collect();
        let text = program_text(&p);
        out.count("generated-fragment:propositional");
        run_pair(out, &text, &goals, false, "generated:propositional");
        if out.sample.is_none() {
            out.sample = Some(J::obj().set("origin", "generated:propositional").set("program", text.as_str()).set("goal", goals[0].as_str()));
        }
        return;
    }
    if mode == 11 {
        // lifetime fragment (answers carry region constraints; only the substitutions are compared)
        let w = crate::props::workload::lifetime_work(&mut r, 10);
        let goals: Vec<String> = w.goals.iter().map(|g| g.0.clone()).collect();
        out.count("generated-fragment:lifetime");
        run_pair(out, &w.text, &goals, false, "generated:lifetime");
        if out.sample.is_none() {
            out.sample = Some(J::obj().set("origin", "generated:lifetime").set("program", w.text.as_str()).set("goal", goals[0].as_str()));
        }
        return;
    }
    if mode == 10 {
        // known-answer programs over every built-in type constructor; here only the two solvers are compared
        let z = crate::zoo::gen_zoo(&mut r);
        let goals: Vec<String> = z.goals.iter().map(|g| g.0.clone()).collect();
        out.count("generated-fragment:constructor-zoo");
        run_pair(out, &z.text, &goals, false, "generated:zoo");
        if out.sample.is_none() {
            out.sample = Some(J::obj().set("origin", "generated:zoo").set("program", z.text.as_str()).set("goal", goals[0].as_str()));
        }
        return;
    }
    let (prog, goals): (MProgram, Vec<String>) = match mode {
        0..=3 => {
            let cfg = GenCfg { increasing_pct: if mode == 1 { 40 } else { 0 }, coinductive_pct: if mode >= 2 { 40 } else { 0 }, ..Default::default() };
            let p = gen_program(&mut r, &cfg);
            let gs = (0..10).map(|gi| goal_text(&gen_goal(&mut r, &p, &GoalCfg { closed_only: gi % 4 == 0, allow_not: true, allow_eq: true, need_exists: gi % 2 == 1 }).0)).collect();
            (p, gs)
        }
        4 | 5 => {
            let p = gen_auto_program(&mut r);
            let mut gs = vec![];
            for _ in 0..10 {
                let t = gen_ground_ty(&mut r, &p, 2);
                let tr = r.pick(&p.traits).name.clone();
                gs.push(pred_text(&MPred::new(&tr, vec![t])));
            }
            for st in p.structs.iter().filter(|s| s.nparams == 1).take(2) {
                let tr = r.pick(&p.traits).name.clone();
                gs.push(format!("exists<V0> {{ {}<V0>: {} }}", st.name, tr));
                gs.push(format!("forall<P1_0> {{ if (P1_0: {}) {{ {}<P1_0>: {} }} }}", tr, st.name, tr));
            }
            (p, gs)
        }
        6 | 7 => crate::props::c06::gen_hierarchy(&mut r),
        8 => crate::props::c07::gen_assoc_case(&mut r),
        _ => crate::props::c08::gen_builtin_case(&mut r),
    };
    let text = program_text(&prog);
    out.count(&format!("generated-fragment:{}", mode));
    run_pair(out, &text, &goals, false, "generated");
    if out.sample.is_none() && !goals.is_empty() {
        out.sample = Some(J::obj().set("origin", "generated").set("program", text.as_str()).set("goal", goals[0].as_str()));
    }
}

fn mutate_goal(r: &mut Rng, g: &str) -> Option<String> {
    let toks: Vec<&str> = g.split(' ').collect();
    let idents: Vec<usize> = toks.iter().enumerate().filter(|(_, t)| t.chars().next().map_or(false, |c| c.is_uppercase()) && t.chars().all(|c| c.is_alphanumeric() || c == '_')).map(|(i, _)| i).collect();
    if idents.len() < 2 {
        return None;
    }
    let a = *r.pick(&idents);
    let b = *r.pick(&idents);
    if toks[a] == toks[b] {
        return None;
    }
    let mut t2: Vec<String> = toks.iter().map(|s| s.to_string()).collect();
    t2.swap(a, b);
    Some(t2.join(" "))
}
