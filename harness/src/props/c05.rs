//! C05 – auto traits and coinductive traits follow coinductive semantics; refuted cyclic assumptions are never
//! reported or reused (sequences of goals on one solver instance).
use crate::case::{CaseOut, Ctx, Tier};
use crate::common::*;
use crate::drive::*;
use crate::gen::*;
use crate::json::J;
use crate::judge;
use crate::model::*;
use crate::rng::Rng;
use chalk_engine::solve::SLGSolver;
use chalk_integration::SolverChoice;

pub fn cases(t: Tier) -> u64 {
    match t {
        Tier::Quick => 400,
        Tier::Thorough => 6000,
    }
}

/// Does the SLG forest already hold a table for `goal` with an answer that carries delayed subgoals? (H4)
///
/// F11's root-cause condition in its precise form (W or M), see `common::slg_stale_table`.
pub fn slg_delayed_table(s: &mut SLGSolver<I>, goal: &UGoal) -> bool {
    crate::common::slg_stale_table(s, goal)
}

pub fn run(ctx: &Ctx, out: &mut CaseOut) {
    let mut r = Rng::for_case(ctx.prop, ctx.seed, ctx.k);
    let prog = gen_auto_program(&mut r);
    let text = program_text(&prog);
    // goals: every struct (applied to ground arguments) x every trait, plus a few deeper ground types
    let mut goals: Vec<MPred> = vec![];
    for tr in &prog.traits {
        for st in &prog.structs {
            let t = if st.nparams == 0 { MTy::nullary(&st.name) } else { MTy::app(&st.name, vec![gen_ground_ty(&mut r, &prog, 1)]) };
            goals.push(MPred::new(&tr.name, vec![t]));
        }
        for _ in 0..3 {
            let t = gen_ground_ty(&mut r, &prog, 2);
            let t = match r.below(4) {
                0 => MTy::app("@tuple", vec![t, gen_ground_ty(&mut r, &prog, 1)]),
                1 => MTy::app("@ref", vec![t]),
                _ => t,
            };
            if !tr.coinductive || matches!(&t, MTy::App(n, _) if !n.starts_with('@')) {
                goals.push(MPred::new(&tr.name, vec![t]));
            }
        }
    }
    let uni = Universe { terms: vec![], max_size: 0 };
    let mut sem = Sem::new(&prog, 12);
    let mut cleans: Vec<bool> = vec![];
    // "in-limit" for the purpose of refuting an Ambiguous answer: the whole reference derivation stays within types of
    // at most 6 nodes (SLG truncates from 10 on and counts tuple / array wrappers of field types as well)
    let mut sem_small = Sem::new(&prog, 6);
    let verdicts: Vec<Tri> = goals
        .iter()
        .map(|g| {
            let v = sem.pred(&[], g);
            let _ = sem_small.pred(&[], g);
            cleans.push(sem.last_clean && sem_small.last_clean);
            v
        })
        .collect();
    out.sample = Some(J::obj().set("program", text.as_str()).set("goals", J::Arr(goals.iter().zip(&verdicts).take(6).map(|(g, v)| J::Str(format!("{} => model {:?}", pred_text(g), v))).collect())));
    for choice in both() {
        let l = match load(&text, choice, false) {
            Ok(l) => l,
            Err(e) => {
                out.inconclusive(&format!("generated program failed to lower: {}", crate::case::truncate(&e, 80)));
                return;
            }
        };
        with_program(&l, || {
            let peeled: Vec<Option<Peeled>> = goals.iter().map(|g| lower_and_peel(&l, &pred_text(g), &[]).ok()).collect();
            let judge_one = |out: &mut CaseOut, gi: usize, rec: &SolveRec, history: &str, delayed_table: bool| {
                let g = &goals[gi];
                let ans = match &rec.ans {
                    Ok(a) => a,
                    Err(_) => {
                        note_non_answer(out, rec);
                        return;
                    }
                };
                out.evals += 1;
                out.count(&format!("answer:{}:{}:{}", solver_name(&choice), history, ans.kind()));
                let expect = verdicts[gi];
                let bad = match (ans, expect) {
                    (MAnswer::Unique(..), Tri::False) => Some("Unique although the coinductive (greatest fixed point) semantics says the trait does not hold"),
                    (MAnswer::None, Tri::True) => Some("No possible solution although the coinductive semantics says the trait holds"),
                    (MAnswer::Unique(..), _) | (MAnswer::None, _) => None,
                    (_, Tri::Unknown) => None,
                    // an ambiguous answer is only refutable when the whole derivation stays far inside the size limits
                    (_, _) if cleans[gi] => Some("Ambiguous answer on a concrete in-limit auto/coinductive goal"),
                    (_, _) => None,
                };
                if let Some(why) = bad {
                    // F11 can only lose answers: it never excuses a `Unique` the model refutes
                    let sig = if delayed_table && matches!(ans, MAnswer::None) { Some("slg:stale-delayed-answer-table") } else { None };
                    out.violation(
                        sig,
                        format!("{} ({}) answered `{}` for `{}`: {}", solver_name(&choice), history, rec.shown, pred_text(g), why),
                        detail(&text, &pred_text(g), &choice).set("answer", rec.shown.as_str()).set("model_verdict", format!("{:?}", expect)).set("history", history),
                    );
                } else if expect != Tri::Unknown {
                    out.nt(&format!("{}|{}|{}|{}", text, pred_text(g), solver_name(&choice), history));
                    out.count(&format!("nontrivial:{}:{:?}", history, expect));
                }
            };
            // (a) fresh solver per goal. A goal whose solve is cut off by the work / wall-clock guard (termination is C09's
            // subject) is not driven again in the sequences below: each such solve costs the full guard time.
            let mut blown: std::collections::BTreeSet<usize> = Default::default();
            for gi in 0..goals.len() {
                if let Some(p) = &peeled[gi] {
                    let rec = solve_translated(&l, choice, p, 300_000);
                    if matches!(rec.outcome, Outcome::Budget) {
                        blown.insert(gi);
                    }
                    let stale = rec.stale_delayed_table;
                    judge_one(out, gi, &rec, "fresh", stale);
                }
            }
            // (a') conjunctions of two goals on a fresh solver: the root table is then not itself coinductive and consumes
            // the answers of cycle members
            for _ in 0..8.min(goals.len()) {
                let (i, j) = (r.below(goals.len()), r.below(goals.len()));
                if i == j || blown.contains(&i) || blown.contains(&j) {
                    continue;
                }
                let gtext = format!("{}, {}", pred_text(&goals[i]), pred_text(&goals[j]));
                let p = match lower_and_peel(&l, &gtext, &[]) {
                    Ok(p) => p,
                    Err(_) => continue,
                };
                let rec = solve_translated(&l, choice, &p, 300_000);
                let ans = match &rec.ans {
                    Ok(a) => a,
                    Err(_) => {
                        note_non_answer(out, &rec);
                        continue;
                    }
                };
                out.evals += 1;
                let expect = verdicts[i].and(verdicts[j]);
                let bad = match (ans, expect) {
                    (MAnswer::Unique(..), Tri::False) => Some("Unique although one of the conjuncts does not hold under the coinductive semantics"),
                    (MAnswer::None, Tri::True) => Some("No possible solution although both conjuncts hold under the coinductive semantics"),
                    _ => None,
                };
                out.count(&format!("answer:{}:conjunction:{}", solver_name(&choice), ans.kind()));
                if let Some(why) = bad {
                    let sig = if rec.stale_delayed_table && matches!(ans, MAnswer::None) { Some("slg:stale-delayed-answer-table") } else { None };
                    out.violation(sig, format!("{} (fresh) answered `{}` for `{}`: {}", solver_name(&choice), rec.shown, gtext, why), detail(&text, &gtext, &choice).set("answer", rec.shown.as_str()).set("model_verdict", format!("{:?}", expect)).set("history", "fresh-conjunction"));
                } else if expect != Tri::Unknown && matches!(ans, MAnswer::Unique(..) | MAnswer::None) {
                    out.nt(&format!("{}|{}|{}|conj", text, gtext, solver_name(&choice)));
                }
            }
            // (b) sequences on one solver instance: rotations and random interleavings (chalk#248 shapes)
            for round in 0..3 {
                let mut order: Vec<usize> = (0..goals.len()).collect();
                match round {
                    0 => order.reverse(),
                    1 => {
                        let k = r.below(order.len().max(1));
                        order.rotate_left(k);
                    }
                    _ => r.shuffle(&mut order),
                }
                // repeat a few goals
                for _ in 0..3 {
                    let x = *r.pick(&order);
                    order.push(x);
                }
                let mut slg_solver = SLGSolver::<I>::new(10, None);
                let mut other = choice.into_solver();
                for &gi in &order {
                    let p = match &peeled[gi] {
                        Some(p) => p,
                        None => continue,
                    };
                    if blown.contains(&gi) {
                        out.count("skipped:goal-already-over-budget-on-a-fresh-solver");
                        continue;
                    }
                    let db = FaultDb::new(&*l.program, solver_name(&choice));
                    db.budget.set(300_000);
                    let (outcome, delayed) = match choice {
                        SolverChoice::SLG { .. } => {
                            let before = crate::common::slg_goal_table_stale(&mut slg_solver, &p.goal);
                            let o = solve(&mut slg_solver, &db, &p.goal);
                            let after = slg_delayed_table(&mut slg_solver, &p.goal);
                            (o, before || after)
                        }
                        _ => (solve(&mut *other, &db, &p.goal), false),
                    };
                    let rec = finish(&l, p, outcome, &db);
                    if matches!(rec.outcome, Outcome::Budget) {
                        blown.insert(gi);
                    }
                    judge_one(out, gi, &rec, "warm", delayed);
                }
            }
        });
    }
    let _ = (&uni, judge::ENUM_CAP);
}
