use crate::case::PropDef;
pub mod c01;
pub mod c02;
pub mod c03;
pub mod c04;
pub mod c05;
pub mod c06;
pub mod c07;
pub mod c08;
pub mod c09;
pub mod c10;
pub mod c11;
pub mod c12;
pub mod c13;
pub mod c14;
pub mod c16;
pub mod c17;
pub mod c18;
pub mod c19;
pub mod c20;
pub mod c21;
pub mod c22;
pub mod c23;
pub mod c24;
pub mod c25;
pub mod c28;
pub mod c29;
pub mod workload;

macro_rules! p {
    ($id:expr, $m:ident) => {
        PropDef { id: $id, cases: $m::cases, run: $m::run }
    };
}

pub fn all() -> Vec<PropDef> {
    vec![
        p!("C01", c01),
        p!("C02", c02),
        p!("C03", c03),
        p!("C04", c04),
        p!("C05", c05),
        p!("C06", c06),
        p!("C07", c07),
        p!("C08", c08),
        p!("C09", c09),
        p!("C10", c10),
        p!("C11", c11),
        p!("C12", c12),
        p!("C13", c13),
        PropDef { id: "C14", cases: c14::cases, run: c14::run14 },
        PropDef { id: "C15", cases: c14::cases, run: c14::run15 },
        p!("C16", c16),
        p!("C17", c17),
        p!("C18", c18),
        p!("C19", c19),
        p!("C20", c20),
        p!("C21", c21),
        p!("C22", c22),
        p!("C23", c23),
        p!("C24", c24),
        p!("C25", c25),
        PropDef { id: "C26", cases: c25::cases26, run: c25::run26 },
        p!("C28", c28),
        p!("C29", c29),
    ]
}
