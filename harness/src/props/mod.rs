use crate::case::PropDef;
pub mod c01;

pub fn all() -> Vec<PropDef> {
    vec![PropDef { id: "C01", cases: c01::cases, run: c01::run }]
}
