//! C22 – printing a program and reparsing it gives back an equivalent program; printing the reparsed program once
//! more reproduces it exactly.
use crate::case::{CaseOut, Ctx, Tier};
use crate::corpus;
use crate::drive::*;
use crate::json::J;
use crate::props::workload::workload;
use crate::rng::Rng;
use crate::surface;
use chalk_integration::interner::ChalkIr;
use chalk_integration::program::Program;
use chalk_ir::*;
use chalk_solve::display::{write_items, WriterState};
use chalk_solve::logging_db::RecordedItemId;
use chalk_solve::rust_ir::*;
use std::panic::{catch_unwind, AssertUnwindSafe};
use std::sync::Arc;

pub fn cases(t: Tier) -> u64 {
    let n = corpus_len() as u64;
    n + match t {
        Tier::Quick => 600,
        Tier::Thorough => 12000,
    }
}

thread_local! {
    static CORPUS: Vec<corpus::CorpusEntry> = corpus::load_corpus();
}
fn corpus_len() -> usize {
    CORPUS.with(|c| c.len())
}

fn item_ids(program: &Program) -> Vec<RecordedItemId<I>> {
    macro_rules! grab {
        ($map:expr) => {
            $map.keys().copied().map(|id| (id.0, RecordedItemId::from(id)))
        };
    }
    let mut ids: Vec<_> = std::iter::empty().chain(grab!(program.adt_data)).chain(grab!(program.trait_data)).chain(grab!(program.impl_data)).chain(grab!(program.opaque_ty_data)).chain(grab!(program.fn_def_data)).collect();
    ids.sort_by_key(|(raw, _)| *raw);
    ids.into_iter().map(|(_, id)| id).collect()
}

pub fn write_program(program: &Arc<Program>) -> Result<String, String> {
    let mut out = String::new();
    let ids = item_ids(program);
    let r = catch_unwind(AssertUnwindSafe(|| chalk_integration::tls::set_current_program(program, || write_items::<_, _, Program, _, _>(&mut out, &WriterState::new(&**program), ids).map_err(|e| e.to_string()))));
    match r {
        Ok(Ok(())) => Ok(out),
        Ok(Err(e)) => Err(format!("write_items error: {}", e)),
        Err(e) => Err(format!("write_items panicked: {}", crate::case::panic_msg(&e))),
    }
}

/// Where-clause lists as sets; an `Implemented` clause that is implied by an `AliasEq` on the same trait reference in
/// the same list is dropped.
fn norm_wcs(p: &Program, wcs: &[QuantifiedWhereClause<I>]) -> Vec<String> {
    let i = ChalkIr;
    let mut keep: Vec<String> = vec![];
    for w in wcs {
        if let WhereClause::Implemented(tr) = w.skip_binders() {
            let implied = wcs.iter().any(|o| match o.skip_binders() {
                WhereClause::AliasEq(AliasEq { alias: AliasTy::Projection(proj), .. }) => {
                    let assoc = match p.associated_ty_data.get(&proj.associated_ty_id) {
                        Some(a) => a,
                        None => return false,
                    };
                    let n = tr.substitution.len(i);
                    assoc.trait_id == tr.trait_id && proj.substitution.len(i) >= n && {
                        // the trait's parameters are the *last* n entries of a projection's substitution in chalk
                        let ps = proj.substitution.as_slice(i);
                        let m = ps.len();
                        ps[m - n..] == *tr.substitution.as_slice(i) || ps[..n] == *tr.substitution.as_slice(i)
                    } && o.binders == w.binders
                }
                _ => false,
            });
            if implied {
                continue;
            }
        }
        keep.push(format!("{:?}", w));
    }
    keep.sort();
    keep.dedup();
    keep
}

fn norm_bounds(bs: &[QuantifiedInlineBound<I>]) -> Vec<String> {
    let mut v: Vec<String> = bs.iter().map(|b| format!("{:?}", b)).collect();
    // a trait bound implied by an alias-eq bound on the same trait
    let alias_traits: Vec<String> = bs
        .iter()
        .filter_map(|b| match b.skip_binders() {
            InlineBound::AliasEqBound(a) => Some(format!("{:?}", a.trait_bound)),
            _ => None,
        })
        .collect();
    v.retain(|s| !alias_traits.iter().any(|t| s.contains(t.as_str()) && !s.contains("AliasEqBound")));
    v.sort();
    v.dedup();
    v
}

/// A description of a program in which where-clause lists are sets (see the property statement); everything else
/// verbatim (Debug output of the lowered data, names resolved through TLS).
pub fn describe(p: &Arc<Program>) -> Vec<String> {
    let i = ChalkIr;
    {
        let mut out = vec![];
        for (id, d) in &p.adt_data {
            let b = d.binders.skip_binders();
            out.push(format!("adt {:?} kinds={:?} kind={:?} flags={:?} variants={:?} where={:?} repr={:?} variance={:?}", id, d.binders.binders.as_slice(i), d.kind, d.flags, b.variants, norm_wcs(p, &b.where_clauses), p.adt_reprs.get(id), p.adt_variances.get(id)));
        }
        for (id, d) in &p.trait_data {
            let b = d.binders.skip_binders();
            out.push(format!("trait {:?} kinds={:?} flags={:?} assoc={:?} wk={:?} where={:?} object_safe={}", id, d.binders.binders.as_slice(i), d.flags, d.associated_ty_ids, d.well_known, norm_wcs(p, &b.where_clauses), p.object_safe_traits.contains(id)));
        }
        for (id, d) in &p.associated_ty_data {
            let b = d.binders.skip_binders();
            out.push(format!("assoc {:?} trait={:?} kinds={:?} bounds={:?} where={:?}", id, d.trait_id, d.binders.binders.as_slice(i), norm_bounds(&b.bounds), norm_wcs(p, &b.where_clauses)));
        }
        for (id, d) in &p.impl_data {
            let b = d.binders.skip_binders();
            out.push(format!("impl {:?} kinds={:?} polarity={:?} type={:?} trait_ref={:?} where={:?} values={:?}", id, d.binders.binders.as_slice(i), d.polarity, d.impl_type, b.trait_ref, norm_wcs(p, &b.where_clauses), d.associated_ty_value_ids));
        }
        for (id, d) in &p.associated_ty_values {
            out.push(format!("assoc-value {:?} {:?}", id, d));
        }
        for (id, d) in &p.opaque_ty_data {
            let b = d.bound.skip_binders();
            out.push(format!("opaque {:?} kinds={:?} bounds={:?}/{:?} where={:?}/{:?} hidden={:?}", id, d.bound.binders.as_slice(i), b.bounds.binders.as_slice(i), norm_wcs(p, b.bounds.skip_binders()), b.where_clauses.binders.as_slice(i), norm_wcs(p, b.where_clauses.skip_binders()), p.hidden_opaque_types.get(id)));
        }
        for (id, d) in &p.fn_def_data {
            let b = d.binders.skip_binders();
            out.push(format!("fn {:?} kinds={:?} sig={:?} io={:?} where={:?} variance={:?}", id, d.binders.binders.as_slice(i), d.sig, b.inputs_and_output, norm_wcs(p, &b.where_clauses), p.fn_def_variances.get(id)));
        }
        let _ = i;
        out
    }
}

pub fn run(ctx: &Ctx, out: &mut CaseOut) {
    let nc = corpus_len() as u64;
    let mut r = Rng::for_case(ctx.prop, ctx.seed, ctx.k);
    let (text, origin): (String, String) = if ctx.k < nc {
        let e = CORPUS.with(|c| c[ctx.k as usize].clone());
        (e.program, e.file)
    } else if (ctx.k - nc) % 4 == 3 {
        let w = workload(&mut r, ctx.k, 2, 1);
        (w.text, format!("generated:{}", w.fragment))
    } else {
        (surface::gen_surface_program(&mut r), "generated:surface".into())
    };
    let kind = if origin.starts_with("generated:") { origin.clone() } else { "corpus".to_string() };
    let l1 = match load(&text, slg(), false) {
        Ok(l) => l,
        Err(_) => {
            out.count(&format!("{}:input-does-not-lower(skipped)", kind));
            return;
        }
    };
    let p1 = l1.program.clone();
    if p1.closure_ids.len() + p1.coroutine_ids.len() + p1.foreign_ty_ids.len() > 0 || !p1.custom_clauses.is_empty() {
        // closures, coroutines, foreign types and custom clauses are outside the writer's item set
        out.count(&format!("{}:has-items-the-writer-does-not-cover(skipped)", kind));
        return;
    }
    out.evals += 1;
    let d = |extra: Vec<(&str, String)>| {
        let mut j = J::obj().set("origin", origin.as_str()).set("input", crate::case::truncate(&text, 6000));
        for (k, v) in extra {
            j.put(k, crate::case::truncate(&v, 6000));
        }
        j
    };
    let t2 = match write_program(&p1) {
        Ok(t) => t,
        Err(e) => {
            out.violation(None, format!("rendering the program failed: {}", crate::case::truncate(&e, 160)), d(vec![]));
            return;
        }
    };
    let l2 = match load(&t2, slg(), false) {
        Ok(l) => l,
        Err(e) => {
            // F27: fn-definition types have no surface syntax in the writer
            // F29: the erased lifetime is rendered as `'_`, which the parser reads as an (unknown) lifetime name
            let sig = if t2.contains("<fn_def>") {
                Some("display:fn-def-type-unrenderable")
            } else if e.contains("invalid parameter name `'_`") && t2.contains("'_") {
                Some("display:erased-lifetime-unparsable")
            } else {
                None
            };
            out.violation(sig, format!("the rendered program does not parse/lower: {}", crate::case::truncate(&e, 200)), d(vec![("rendered", t2.clone())]));
            return;
        }
    };
    let p2 = l2.program.clone();
    // (1) equivalence of P1 and P2 with where-clause lists as sets
    let (d1, d2) = (describe(&p1), describe(&p2));
    if d1 != d2 {
        let first = d1.iter().zip(d2.iter()).find(|(a, b)| a != b).map(|(a, b)| format!("original: {}\nreparsed: {}", a, b)).unwrap_or_else(|| format!("{} items vs {} items", d1.len(), d2.len()));
        // F23: the writer has no syntax for a fn definition's ABI / safety / variadic flag
        // F25: the writer does not print #[variance(..)] attributes
        let same_len = d1.len() == d2.len();
        let differing: Vec<(&String, &String)> = d1.iter().zip(d2.iter()).filter(|(a, b)| a != b).collect();
        let only_fn_sig = same_len && differing.iter().all(|(a, b)| a.starts_with("fn ") && strip_sig(a) == strip_sig(b));
        let only_variance = same_len && differing.iter().all(|(a, b)| strip_variance(a) == strip_variance(b));
        // F26: the writer does not print an opaque type's where-clauses
        let only_opaque_where = same_len && differing.iter().all(|(a, b)| a.starts_with("opaque ") && strip_between(a, " where=", " hidden=") == strip_between(b, " where=", " hidden="));
        let sig = if only_fn_sig {
            Some("display:fn-def-abi-safety-variadic-dropped")
        } else if only_opaque_where {
            Some("display:opaque-type-where-clauses-dropped")
        } else if only_variance {
            Some("display:variance-attribute-dropped")
        } else {
            None
        };
        out.violation(sig, "the reparsed program is not equivalent to the original".to_string(), d(vec![("rendered", t2.clone()), ("first_difference", first)]));
        return;
    }
    out.count(&format!("{}:reparsed-equivalent", kind));
    // (2) rendering P2 once more reproduces it exactly
    let t3 = match write_program(&p2) {
        Ok(t) => t,
        Err(e) => {
            out.violation(None, format!("rendering the reparsed program failed: {}", crate::case::truncate(&e, 160)), d(vec![("rendered", t2.clone())]));
            return;
        }
    };
    match load(&t3, slg(), false) {
        Err(e) => {
            out.violation(None, format!("the second rendering does not parse/lower: {}", crate::case::truncate(&e, 200)), d(vec![("rendered", t2.clone()), ("rendered_again", t3.clone())]));
            return;
        }
        Ok(l3) => {
            if *l3.program != *p2 {
                // F7: the only difference is extra copies of Implemented clauses implied by an AliasEq in the same list
                let sig = if describe(&l3.program) == d2 { Some("display:aliaseq-implied-bound-dup") } else { None };
                out.violation(sig, "rendering the reparsed program again does not reproduce it exactly".to_string(), d(vec![("rendered", t2.clone()), ("rendered_again", t3.clone())]));
                return;
            }
        }
    }
    out.count(&format!("{}:second-rendering-exact", kind));
    out.add("items-round-tripped", d1.len() as u64);
    out.nt(&t2);
    if out.sample.is_none() {
        out.sample = Some(J::obj().set("origin", origin.as_str()).set("input", crate::case::truncate(&text, 1500)).set("rendered", crate::case::truncate(&t2, 1500)));
    }
}

fn strip_sig(s: &str) -> String {
    // remove the `sig=FnSig { .. }` part of a fn description
    match (s.find(" sig="), s.find(" io=")) {
        (Some(a), Some(b)) if a < b => format!("{}{}", &s[..a], &s[b..]),
        _ => s.to_string(),
    }
}

fn strip_variance(s: &str) -> String {
    match s.rfind(" variance=") {
        Some(a) => s[..a].to_string(),
        None => s.to_string(),
    }
}

fn strip_between(s: &str, a: &str, b: &str) -> String {
    match (s.find(a), s.find(b)) {
        (Some(x), Some(y)) if x < y => format!("{}{}", &s[..x], &s[y..]),
        _ => s.to_string(),
    }
}

/// Does the writer print this program faithfully (C22's criterion, first round trip)? Used by C23 to keep display
/// defects out of the recording check.
pub fn roundtrip_ok(p1: &Arc<Program>) -> bool {
    let t2 = match write_program(p1) {
        Ok(t) => t,
        Err(_) => return false,
    };
    match load(&t2, slg(), false) {
        Ok(l2) => describe(p1) == describe(&l2.program),
        Err(_) => false,
    }
}
