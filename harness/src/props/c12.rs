//! C12 – a panic in a database callback leaves the solver usable. Crash points are enumerated: the n-th callback of
//! the solve panics, for every n below the number of callbacks a clean solve makes.
use crate::case::{CaseOut, Ctx, Tier};
use crate::common::*;
use crate::drive::*;
use crate::json::J;
use crate::props::workload::workload;
use crate::rng::Rng;
use chalk_solve::{Guidance, Solution};

pub fn cases(t: Tier) -> u64 {
    match t {
        Tier::Quick => 160,
        Tier::Thorough => 2400,
    }
}

/// With a strand lost (F5) answers can only disappear: is `retry` explained by `fresh` minus some answers?
fn only_lost_answers(l: &Loaded, retry: &Option<Solution<I>>, fresh: &Option<Solution<I>>) -> bool {
    use chalk_ir::Canonical;
    match (fresh, retry) {
        // the general answer was lost, a more specific one remains: the retry's substitution is an instance of the fresh one
        (Some(Solution::Unique(f)), Some(Solution::Unique(a))) => {
            let fs = Canonical { binders: f.binders.clone(), value: f.value.subst.clone() };
            let asub = Canonical { binders: a.binders.clone(), value: a.value.subst.clone() };
            matches!(crate::props::c04::is_instance_of_pub(&asub, &fs, &*l.program), Ok(true))
        }
        (Some(_), None) => true,
        (Some(Solution::Ambig(_)), Some(Solution::Unique(_))) => true,
        (Some(Solution::Ambig(Guidance::Unknown)), Some(Solution::Ambig(_))) => true,
        (Some(Solution::Ambig(Guidance::Suggested(_))), Some(Solution::Ambig(_))) => true,
        (Some(Solution::Ambig(Guidance::Definite(_))), Some(Solution::Ambig(Guidance::Definite(_)))) => true,
        _ => false,
    }
}

pub fn run(ctx: &Ctx, out: &mut CaseOut) {
    let mut r = Rng::for_case(ctx.prop, ctx.seed, ctx.k);
    let w = workload(&mut r, ctx.k, 0, 4);
    let count_interner = ctx.k % 3 == 0;
    let max_n: u64 = if ctx.tier == Tier::Quick { 150 } else { 2000 };
    out.sample = Some(J::obj().set("program", w.text.as_str()).set("goals", J::Arr(w.goals.iter().take(3).map(|g| J::Str(g.0.clone())).collect())).set("interner_calls_counted", count_interner));
    for choice in both() {
        let is_slg = solver_name(&choice) == "slg";
        let l = match load(&w.text, choice, false) {
            Ok(l) => l,
            Err(_) => {
                out.inconclusive("generated program failed to lower");
                return;
            }
        };
        with_program(&l, || {
            let peeled: Vec<Option<Peeled>> = w.goals.iter().map(|(g, e, _)| lower_and_peel(&l, g, e).ok()).collect();
            // clean runs: answer and number of callbacks
            let clean: Vec<Option<(Option<Solution<I>>, u64)>> = peeled
                .iter()
                .map(|p| {
                    p.as_ref().and_then(|p| {
                        let mut db = FaultDb::new(&*l.program, solver_name(&choice));
                        db.count_interner = count_interner;
                        db.budget.set(3_000_000);
                        let mut s = choice.into_solver();
                        match solve(&mut *s, &db, &p.goal) {
                            Outcome::Answer(a) => Some((a, db.calls.get())),
                            _ => None,
                        }
                    })
                })
                .collect();
            for gi in 0..w.goals.len().min(2) {
                let (p, (full, n_calls)) = match (&peeled[gi], &clean[gi]) {
                    (Some(p), Some(c)) => (p, c),
                    _ => continue,
                };
                let n_calls = *n_calls;
                out.gauge("max_callbacks_clean_run", n_calls);
                if n_calls == 0 {
                    continue;
                }
                if n_calls > max_n * 20 {
                    out.count("skipped:clean-run-too-long-for-enumeration");
                    continue;
                }
                // crash points: all n when small, else all up to 400 then stratified
                let mut points: Vec<u64> = if n_calls <= max_n.min(400) { (0..n_calls).collect() } else { (0..max_n.min(400).min(n_calls)).collect() };
                if n_calls > points.len() as u64 {
                    for _ in 0..(max_n as usize).saturating_sub(points.len()).min(200) {
                        points.push(r.below(n_calls as usize) as u64);
                    }
                }
                let exhaustive = points.len() as u64 == n_calls;
                out.count(if exhaustive { "goals-with-all-crash-points-enumerated" } else { "goals-with-sampled-crash-points" });
                for &n in &points {
                    let mut db = FaultDb::new(&*l.program, solver_name(&choice));
                    db.count_interner = count_interner;
                    db.budget.set(3_000_000);
                    db.panic_at.set(Some(n));
                    // SLG through the concrete type so that hooks H4/H5 can be read from the crashed solver afterwards
                    let mut slg_s = chalk_engine::solve::SLGSolver::<I>::new(10, None);
                    let mut s = choice.into_solver();
                    let _ = chalk_engine::verif::take_unwind_log();
                    let o = if is_slg { solve(&mut slg_s, &db, &p.goal) } else { solve(&mut *s, &db, &p.goal) };
                    let log = chalk_engine::verif::take_unwind_log();
                    out.evals += 1;
                    match &o {
                        Outcome::Injected => {}
                        Outcome::Answer(_) => {
                            // fault was not reached (e.g. counting differs between runs) — nothing to check
                            out.count("crash-point-not-reached");
                            continue;
                        }
                        Outcome::Panic(m) => {
                            // a *different* panic triggered by our unwinding (e.g. a panic inside Drop)
                            out.violation(None, format!("{}: injected fault at callback {} turned into another panic: {}", solver_name(&choice), n, crate::case::truncate(m, 120)), detail(&w.text, &w.goals[gi].0, &choice).set("crash_point", n));
                            continue;
                        }
                        Outcome::Budget => continue,
                    }
                    let strand_lost = is_slg && log.iter().any(|e| e.panicking && !e.top_strand_restored && !e.in_flight_restored);
                    let requeued = is_slg && log.iter().any(|e| e.panicking && e.in_flight_restored);
                    out.count(&format!("crash:{}:{}", solver_name(&choice), if !is_slg { "n/a" } else if log.is_empty() { "stack-empty-at-unwind" } else if strand_lost { "mid-step:strand-already-handed-on" } else if requeued { "mid-step:in-flight-strand-requeued" } else { "between-steps:active-strand-restored" }));
                    // optionally a second injected fault during the retry
                    let second = ctx.tier == Tier::Thorough && n % 5 == 0;
                    if second {
                        db.calls.set(0);
                        db.panic_at.set(Some(n / 2));
                        let _ = if is_slg { solve(&mut slg_s, &db, &p.goal) } else { solve(&mut *s, &db, &p.goal) };
                        let _ = chalk_engine::verif::take_unwind_log();
                        out.count("second-fault-injected-during-retry");
                    }
                    // control: the same sequence of goals on a solver that never crashed (separates the effect of the
                    // crash from plain history dependence, which is C10's subject)
                    let seq = [gi, (gi + 1) % w.goals.len(), (gi + 2) % w.goals.len()];
                    let control: Vec<Option<Outcome>> = {
                        let cdb = FaultDb::new(&*l.program, solver_name(&choice));
                        cdb.budget.set(3_000_000);
                        let mut cs = choice.into_solver();
                        seq.iter().map(|&gj| peeled[gj].as_ref().map(|pj| solve(&mut *cs, &cdb, &pj.goal))).collect()
                    };
                    // retry the same goal and a sibling on the same solver instance
                    let mut all_ok = true;
                    for (si, &gj) in seq.iter().enumerate() {
                        let (pj, (fj, _)) = match (&peeled[gj], &clean[gj]) {
                            (Some(p), Some(c)) => (p, c),
                            _ => continue,
                        };
                        db.calls.set(0);
                        db.panic_at.set(None);
                        let stale_before = is_slg && slg_goal_table_stale(&mut slg_s, &pj.goal);
                        let o2 = if is_slg { solve(&mut slg_s, &db, &pj.goal) } else { solve(&mut *s, &db, &pj.goal) };
                        let d = |obs: &str| {
                            detail(&w.text, &w.goals[gi].0, &choice)
                                .set("crash_point", n)
                                .set("callbacks_in_clean_run", n_calls)
                                .set("interner_calls_counted", count_interner)
                                .set("retry_goal", w.goals[gj].0.as_str())
                                .set("retry_observed", obs)
                                .set("fresh_answer", disp(fj))
                                .set("slg_unwind_log", format!("{:?}", log))
                        };
                        match o2 {
                            Outcome::Answer(a) => {
                                if &a != fj && matches!(&control[si], Some(Outcome::Answer(c)) if c == &a) {
                                    out.count("differs-from-fresh-but-equals-uncrashed-solver-with-same-history(C10's subject)");
                                    continue;
                                }
                                if &a != fj {
                                    all_ok = false;
                                    // F12: a re-queued strand is not necessarily at its old queue position, and whether a
                                    // goal with an unconstrained unknown is answered `Unique [?0 := ^0]` or `Ambiguous` depends
                                    // on strand order even without any crash
                                    let trivial = |s: &Option<Solution<I>>| matches!(s, Some(Solution::Unique(c)) if !c.value.subst.is_empty(chalk_integration::interner::ChalkIr) && c.value.subst.is_identity_subst(chalk_integration::interner::ChalkIr));
                                    let ambig = |s: &Option<Solution<I>>| s.as_ref().map_or(false, |s| s.is_ambig());
                                    let sig = if is_slg && requeued && ((trivial(&a) && ambig(fj)) || (trivial(fj) && ambig(&a))) {
                                        Some("slg:trivial-answer-green-cut-order")
                                    } else if is_slg && a.is_none() && fj.is_some() && (stale_before || slg_stale_table(&mut slg_s, &pj.goal)) {
                                        // F11: the tables the crashed solve left behind are read by the retry in another order
                                        Some("slg:stale-delayed-answer-table")
                                    } else if is_slg && fj.is_none() && a.is_some() && fresh_slg_stale(&l, &pj.goal) {
                                        Some("slg:stale-delayed-answer-table")
                                    } else if is_slg && ((ambig(fj) && matches!(&a, Some(Solution::Unique(_)))) || (fj.is_some() && a.is_none())) && slg_unrefined_root_answer(&mut slg_s, &pj.goal) {
                                        // F33: the fault hit between publishing a conditional root answer and queueing its
                                        // refinement strand (stack already empty, so nothing is restored by Drop)
                                        Some("slg:refinement-strand-lost-on-panic")
                                    } else if is_slg && requeued {
                                        let warm_sub = slg_subsumed_answers(&mut slg_s);
                                        slg_order_signature(&disp(&a), warm_sub, &disp(fj), fresh_slg_subsumed(&l, &pj.goal))
                                    } else {
                                        None
                                    };
                                    let _ = only_lost_answers;
                                    if std::env::var_os("VERIF_TRACE").is_some() && is_slg {
                                        for t in slg_s.verif_tables() {
                                            eprintln!("[table] {} co={} answers={} cond={} strands={} delayed={:?}", t.goal_body, t.coinductive, t.answers, t.answers_with_delayed_subgoals, t.strands, t.delayed_goals);
                                        }
                                    }
                                    out.violation(sig, format!("{}: after a callback panic at call {}, solving `{}` on the same solver gives `{}`; a fresh solver gives `{}`", solver_name(&choice), n, w.goals[gj].0, disp(&a), disp(fj)), d(&disp(&a)));
                                    break;
                                }
                            }
                            Outcome::Panic(_) if !second && matches!(&control[si], Some(Outcome::Panic(_))) => {
                                out.count("retry-panics-like-uncrashed-solver-with-same-history(C09/C10's subject)");
                            }
                            Outcome::Panic(m) => {
                                all_ok = false;
                                let sig = crate::common::panic_signature(solver_name(&choice), &m, w.goals[gj].2.as_ref(), Some(&w.prog));
                                out.violation(sig.as_deref(), format!("{}: after a callback panic at call {}, the next solve on the same solver panics: {}", solver_name(&choice), n, crate::case::truncate(&m, 120)), d(&format!("PANIC {}", m)));
                                break;
                            }
                            _ => {}
                        }
                    }
                    if all_ok {
                        out.count(&format!("retry==fresh:{}", solver_name(&choice)));
                        out.nt(&format!("{}|{}|{}|{}|{}", w.text, w.goals[gi].0, solver_name(&choice), n, count_interner));
                    }
                }
            }
        });
    }
}
