//! C10 – answers do not depend on what the same solver solved before; recursive cache on == off.
use crate::case::{CaseOut, Ctx, Tier};
use crate::common::*;
use crate::drive::*;
use crate::json::J;
use crate::model::{build_universe, collect_phs, Sem};
use crate::props::c05::slg_delayed_table;
use crate::props::workload::workload;
use crate::rng::Rng;
use chalk_engine::solve::SLGSolver;
use chalk_integration::SolverChoice;

pub fn cases(t: Tier) -> u64 {
    match t {
        Tier::Quick => 400,
        Tier::Thorough => 6000,
    }
}

/// One of the two answers is `Ambiguous; no inference guidance`, the other is definite.
fn truncation_pair(a: &Option<chalk_solve::Solution<I>>, b: &Option<chalk_solve::Solution<I>>) -> bool {
    let unk = |s: &Option<chalk_solve::Solution<I>>| matches!(s, Some(chalk_solve::Solution::Ambig(chalk_solve::Guidance::Unknown)));
    let def = |s: &Option<chalk_solve::Solution<I>>| matches!(s, None | Some(chalk_solve::Solution::Unique(_)));
    (unk(a) && def(b)) || (unk(b) && def(a))
}

/// F34's root-cause condition: the reference derivation of the goal leaves the model's size bound, i.e. the program makes
/// types grow along the derivation (polymorphic recursion through fields or where-clauses), which is where the solver's
/// `max_size` truncation cuts in.
fn derivation_grows(w: &crate::props::workload::Work, gi: usize) -> bool {
    match &w.goals[gi].2 {
        Some(g) => {
            let mut phs = vec![];
            collect_phs(g, &mut phs);
            let uni = build_universe(&w.prog, &phs, 2);
            let mut sem = Sem::new(&w.prog, 12);
            let _ = sem.eval(&uni, &mut vec![], g, &Default::default());
            !sem.last_clean
        }
        None => false,
    }
}

pub fn run(ctx: &Ctx, out: &mut CaseOut) {
    let mut r = Rng::for_case(ctx.prop, ctx.seed, ctx.k);
    let w = workload(&mut r, ctx.k, 1, 8);
    out.sample = Some(J::obj().set("fragment", w.fragment).set("program", w.text.as_str()).set("goals", J::Arr(w.goals.iter().take(4).map(|g| J::Str(g.0.clone())).collect())));
    for choice in both() {
        let l = match load(&w.text, choice, false) {
            Ok(l) => l,
            Err(_) => {
                out.inconclusive("generated program failed to lower");
                return;
            }
        };
        with_program(&l, || {
            let peeled: Vec<Option<Peeled>> = w.goals.iter().map(|(g, e, _)| lower_and_peel(&l, g, e).ok()).collect();
            let fresh: Vec<Option<Outcome>> = peeled
                .iter()
                .map(|p| {
                    p.as_ref().map(|p| {
                        let db = FaultDb::new(&*l.program, solver_name(&choice));
                        db.budget.set(300_000);
                        let mut s = choice.into_solver();
                        solve(&mut *s, &db, &p.goal)
                    })
                })
                .collect();
            // recursive solver: caching on vs off
            if let SolverChoice::Recursive { overflow_depth, max_size, .. } = choice {
                let nocache = SolverChoice::Recursive { overflow_depth, caching_enabled: false, max_size };
                for (gi, p) in peeled.iter().enumerate() {
                    if let (Some(p), Some(Outcome::Answer(f))) = (p, &fresh[gi]) {
                        let db = FaultDb::new(&*l.program, "recursive");
                        db.budget.set(300_000);
                        let mut s = nocache.into_solver();
                        if let Outcome::Answer(a) = solve(&mut *s, &db, &p.goal) {
                            out.evals += 1;
                            if &a != f {
                                out.violation(None, format!("recursive solver: cache on gives `{}`, cache off gives `{}`", disp(f), disp(&a)), detail(&w.text, &w.goals[gi].0, &choice).set("cache_on", disp(f)).set("cache_off", disp(&a)));
                            } else {
                                out.count("cache-on==cache-off");
                            }
                        }
                    }
                }
            }
            // warm solver: random sequence with repetitions
            for round in 0..2 {
                let mut slg_solver = SLGSolver::<I>::new(10, None);
                let mut other = choice.into_solver();
                let mut history: Vec<usize> = vec![];
                let len = 8 + r.below(9);
                for _ in 0..len {
                    let gi = r.below(w.goals.len());
                    let (p, f) = match (&peeled[gi], &fresh[gi]) {
                        (Some(p), Some(Outcome::Answer(f))) => (p, f),
                        _ => continue,
                    };
                    let db = FaultDb::new(&*l.program, solver_name(&choice));
                    db.budget.set(300_000);
                    let is_slg = matches!(choice, SolverChoice::SLG { .. });
                    let delayed = if is_slg { crate::common::slg_goal_table_stale(&mut slg_solver, &p.goal) } else { false };
                    let o = if is_slg { solve(&mut slg_solver, &db, &p.goal) } else { solve(&mut *other, &db, &p.goal) };
                    let delayed = delayed || (is_slg && slg_delayed_table(&mut slg_solver, &p.goal));
                    out.evals += 1;
                    match o {
                        Outcome::Answer(a) => {
                            if &a != f {
                                if std::env::var_os("VERIF_TRACE").is_some() && is_slg {
                                    eprintln!("[mismatch] fresh={} warm={} subsumed_warm={}", disp(f), disp(&a), slg_subsumed_answers(&mut slg_solver));
                                    for t in slg_solver.verif_tables() {
                                        eprintln!("[table] {} co={} fl={} answers={} amb={} cond={} strands={}", t.goal_body, t.coinductive, t.floundered, t.answers, t.ambiguous_answers, t.answers_with_delayed_subgoals, t.strands);
                                    }
                                }
                                let trivial = |s: &Option<chalk_solve::Solution<I>>| matches!(s, Some(chalk_solve::Solution::Unique(c)) if !c.value.subst.is_empty(chalk_integration::interner::ChalkIr) && c.value.subst.is_identity_subst(chalk_integration::interner::ChalkIr));
                                let ambig = |s: &Option<chalk_solve::Solution<I>>| s.as_ref().map_or(false, |s| s.is_ambig());
                                let sig = if delayed && a.is_none() && f.is_some() {
                                    Some("slg:stale-delayed-answer-table")
                                } else if is_slg && f.is_none() && a.is_some() && fresh_slg_stale(&l, &p.goal) {
                                    // it is the fresh solve that lost the answer (F11 within one search)
                                    Some("slg:stale-delayed-answer-table")
                                } else if is_slg && matches!(&a, Some(chalk_solve::Solution::Ambig(chalk_solve::Guidance::Unknown))) && slg_goal_table_floundered(&mut slg_solver, &p.goal) {
                                    // F36: an earlier goal consumed this table past the size limit and left it marked floundered
                                    Some("slg:floundered-table-reused")
                                } else if !is_slg && truncation_pair(&a, f) && derivation_grows(&w, gi) {
                                    Some("recursive:size-truncation-depends-on-cache")
                                } else if is_slg && ((trivial(&a) && ambig(f)) || (trivial(f) && ambig(&a))) {
                                    // F12: warm sub-tables change the order in which answers arrive
                                    Some("slg:trivial-answer-green-cut-order")
                                } else if is_slg {
                                    let warm_sub = slg_subsumed_answers(&mut slg_solver);
                                    slg_order_signature(&disp(&a), warm_sub, &disp(f), fresh_slg_subsumed(&l, &p.goal))
                                } else {
                                    None
                                };
                                out.violation(
                                    sig,
                                    format!("{}: fresh solver answers `{}` but after {} earlier goals the same solver answers `{}`", solver_name(&choice), disp(f), history.len(), disp(&a)),
                                    detail(&w.text, &w.goals[gi].0, &choice).set("fresh", disp(f)).set("warm", disp(&a)).set("history", J::Arr(history.iter().map(|&i| J::Str(w.goals[i].0.clone())).collect())),
                                );
                                // continue with a fresh solver so one divergence is not reported many times
                                slg_solver = SLGSolver::<I>::new(10, None);
                                other = choice.into_solver();
                                history.clear();
                                continue;
                            }
                            out.count(&format!("warm==fresh:{}:{}", solver_name(&choice), w.fragment));
                            if !history.is_empty() {
                                out.nt(&format!("{}|{}|{}|{:?}|{}", w.text, w.goals[gi].0, solver_name(&choice), history, round));
                            }
                        }
                        Outcome::Panic(_) | Outcome::Budget => {
                            out.count("warm-solve-panicked-or-over-budget(see C09/C12)");
                            slg_solver = SLGSolver::<I>::new(10, None);
                            other = choice.into_solver();
                            history.clear();
                            continue;
                        }
                        Outcome::Injected => {}
                    }
                    history.push(gi);
                }
            }
        });
    }
}
