//! Mixed workload used by the history / interruption / crash / order / termination monitors.
use crate::gen::*;
use crate::model::*;
use crate::rng::Rng;

pub struct Work {
    pub prog: MProgram,
    pub text: String,
    /// (goal text, exists ids, structured goal if the basic generator made it)
    pub goals: Vec<(String, Vec<usize>, Option<MGoal>)>,
    pub fragment: &'static str,
}

/// `mix`: which fragments may be drawn. 0 = C01 fragment only (basic + coinductive), 1 = + auto + assoc,
/// 2 = everything incl. growing where-clauses, hierarchy and builtin.
pub fn workload(r: &mut Rng, k: u64, mix: u32, ngoals: usize) -> Work {
    let sel = match mix {
        0 => k % 6,
        1 => k % 9,
        _ => k % 12,
    };
    // one slot of every mix: the multi-answer fragment
    if matches!((mix, sel), (0, 5) | (1, 8)) || (mix >= 2 && sel == 11) {
        let (prog, pool) = gen_multi_or_graph(r);
        let mut pool = pool;
        r.shuffle(&mut pool);
        let goals = pool.into_iter().take(ngoals).map(|(g, e)| (goal_text(&g), e, Some(g))).collect();
        let text = program_text(&prog);
        return Work { prog, text, goals, fragment: "multi-answer" };
    }
    // one slot of every mix is the propositional fragment (dense cycles on a single struct)
    let sel = match (mix, sel) {
        (0, 4) | (1, 7) | (_, 10) => {
            let coinductive = (k / 11) % 3 == 2;
            let prog = gen_propositional(r, coinductive);
            let goals = gen_propositional_goals(r, &prog, ngoals, !coinductive).into_iter().map(|g| (goal_text(&g), vec![], Some(g))).collect();
            let text = program_text(&prog);
            return Work { prog, text, goals, fragment: "propositional" };
        }
        (_, s) => s,
    };
    match sel {
        0..=3 | 7 => {
            let cfg = match sel {
                0 => GenCfg::default(),
                1 => GenCfg { coinductive_pct: 50, ..Default::default() },
                2 => GenCfg { param_trait_pct: 60, ..Default::default() },
                3 => GenCfg { coinductive_pct: 30, param_trait_pct: 40, ..Default::default() },
                _ => GenCfg { increasing_pct: 40, coinductive_pct: 20, ..Default::default() },
            };
            let prog = gen_program(r, &cfg);
            let goals = (0..ngoals)
                .map(|gi| {
                    let (g, e) = gen_goal(r, &prog, &GoalCfg { closed_only: gi % 3 == 0, allow_not: true, allow_eq: true, need_exists: gi % 3 == 1 });
                    (goal_text(&g), e, Some(g))
                })
                .collect();
            let text = program_text(&prog);
            Work { prog, text, goals, fragment: if sel == 7 { "basic-growing" } else { "basic" } }
        }
        4 => {
            let prog = gen_auto_program(r);
            let mut goals = vec![];
            for _ in 0..ngoals {
                let t = gen_ground_ty(r, &prog, 2);
                let tr = r.pick(&prog.traits).name.clone();
                let pr = MPred::new(&tr, vec![t]);
                goals.push((pred_text(&pr), vec![], Some(MGoal::Pred(pr))));
            }
            let text = program_text(&prog);
            Work { prog, text, goals, fragment: "auto" }
        }
        5 | 6 => {
            let (prog, gs) = crate::props::c07::gen_assoc(r);
            let goals = gs.into_iter().take(ngoals).map(|g| (g.text, g.exs, None)).collect();
            let text = program_text(&prog);
            Work { prog, text, goals, fragment: "assoc" }
        }
        8 => {
            let (prog, gs) = crate::props::c06::gen_hierarchy_m(r);
            let goals = gs.iter().take(ngoals).map(|g| (goal_text(g), vec![], Some(g.clone()))).collect();
            let text = program_text(&prog);
            Work { prog, text, goals, fragment: "hierarchy" }
        }
        _ => {
            let (prog, gs) = crate::props::c08::gen_builtin(r);
            let goals = gs.iter().take(ngoals).map(|g| (pred_text(g), vec![], None)).collect();
            let text = crate::props::c08::builtin_program_text(&prog);
            Work { prog, text, goals, fragment: "builtin" }
        }
    }
}

/// Lifetime fragment (text only, no reference semantics): structs with lifetime parameters, impls and raw clauses whose
/// headers repeat a lifetime parameter or fix it to `'static`, where-clauses that pass lifetimes on, outlives
/// where-clauses; goals that mix universally and existentially quantified lifetimes, with and without hypotheses.
/// Used by the monitors that need no oracle (termination, history, interruption, crash, differential).
pub fn lifetime_work(r: &mut Rng, ngoals: usize) -> Work {
    let mut t = String::new();
    t.push_str("struct A { }\nstruct B { }\nstruct R<'c, 'a, 'b> { }\nstruct W<'c, 'a, 'b> { }\nstruct Rf<'a, T> { }\n");
    t.push_str("trait Foo { }\ntrait Bar { }\ntrait Baz<'x> { }\n");
    // a lifetime argument of a clause head / where-clause over the parameters 'p0..'p2
    let la = |r: &mut Rng, n: usize| -> String {
        match r.below(5) {
            0 => "'static".to_string(),
            _ => format!("'p{}", r.below(n)),
        }
    };
    let r3 = |r: &mut Rng, n: usize| -> String {
        if n >= 2 && r.chance(60) {
            // the first lifetime stays independent of the others (an existential there is left unconstrained)
            let rest = |r: &mut Rng| if r.chance(25) { "'static".to_string() } else { format!("'p{}", 1 + r.below(n - 1)) };
            format!("R<'p0, {}, {}>", rest(r), rest(r))
        } else {
            format!("R<{}, {}, {}>", la(r, n), la(r, n), la(r, n))
        }
    };
    let params = |n: usize| (0..n).map(|i| format!("'p{}", i)).collect::<Vec<_>>().join(", ");
    let nfoo = 1 + r.below(3);
    for _ in 0..nfoo {
        let n = 2 + r.below(2);
        if r.chance(50) {
            t.push_str(&format!("forall<{}> {{ {}: Foo }}\n", params(n), r3(r, n)));
        } else {
            let wh = if n >= 2 && r.chance(30) { format!(" where 'p0: 'p1") } else { String::new() };
            t.push_str(&format!("impl<{}> Foo for {}{} {{ }}\n", params(n), r3(r, n), wh));
        }
    }
    // Bar for W through Foo for R (the where-clause's answer carries region constraints)
    t.push_str(&format!("impl<'p0, 'p1, 'p2> Bar for W<'p0, 'p1, 'p2> where {}: Foo {{ }}\n", if r.chance(70) { "R<'p0, 'p1, 'p2>".to_string() } else { r3(r, 3) }));
    if r.chance(50) {
        t.push_str(&format!("impl<'p0, 'p1, 'p2> Bar for R<'p0, 'p1, 'p2> where W<'p0, 'p1, 'p2>: Bar, {}: Foo {{ }}\n", r3(r, 3)));
    }
    if r.chance(60) {
        t.push_str("impl<'p0, T> Foo for Rf<'p0, T> where T: Foo { }\n");
        t.push_str("impl Foo for A { }\n");
    }
    if r.chance(50) {
        t.push_str(&format!("impl<'p0, 'p1> Baz<'p0> for Rf<'p1, A> {{ }}\nimpl<'p0> Baz<{}> for Rf<'p0, B> {{ }}\n", if r.chance(50) { "'static" } else { "'p0" }));
    }
    // goals
    let ga = |r: &mut Rng, names: &[&str]| -> String { if r.chance(15) { "'static".to_string() } else { r.pick(names).to_string() } };
    let mut goals = vec![];
    for gi in 0..ngoals {
        let names = ["'a", "'b", "'c"];
        let head = *r.pick(&["W", "R"]);
        let tr = if head == "W" { "Bar" } else { *r.pick(&["Foo", "Bar"]) };
        let atom = |r: &mut Rng| match r.below(6) {
            0 => format!("Rf<{}, A>: Baz<{}>", ga(r, &names), ga(r, &names)),
            1 => format!("Rf<{}, Rf<{}, A>>: Foo", ga(r, &names), ga(r, &names)),
            _ => format!("{}<{}, {}, {}>: {}", head, ga(r, &names), ga(r, &names), ga(r, &names), tr),
        };
        let body = if r.chance(30) { format!("{}, {}", atom(r), atom(r)) } else { atom(r) };
        let hyp = if r.chance(35) {
            let h = match r.below(3) {
                0 => format!("forall<'d> {{ R<'d, {}, {}>: Foo }}", ga(r, &["'a", "'b"]), ga(r, &["'a", "'b"])),
                1 => format!("R<{}, {}, {}>: Foo", ga(r, &["'a", "'b"]), ga(r, &["'a", "'b"]), ga(r, &["'a", "'b"])),
                _ => "'a: 'b".to_string(),
            };
            Some(h)
        } else {
            None
        };
        // which of 'a 'b 'c are universal / existential
        let shape = (gi + r.below(4)) % 4;
        let inner = match &hyp {
            Some(h) if shape != 3 => format!("if ({}) {{ exists<'c> {{ {} }} }}", h, body),
            _ => format!("exists<'c> {{ {} }}", body),
        };
        let g = match shape {
            0 => format!("forall<'a, 'b> {{ {} }}", inner),
            1 => format!("forall<'a> {{ exists<'b> {{ {} }} }}", inner),
            2 => format!("exists<'a> {{ forall<'b> {{ {} }} }}", inner),
            _ => format!("exists<'a, 'b> {{ {} }}", inner),
        };
        goals.push((g, vec![], None));
    }
    Work { prog: MProgram::default(), text: t, goals, fragment: "lifetime" }
}
