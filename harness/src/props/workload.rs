//! Mixed workload used by the history / interruption / crash / order / termination monitors.
use crate::gen::*;
use crate::model::*;
use crate::rng::Rng;

pub struct Work {
    pub prog: MProgram,
    pub text: String,
    /// (goal text, exists ids, structured goal if the basic generator made it)
    pub goals: Vec<(String, Vec<usize>, Option<MGoal>)>,
    pub fragment: &'static str,
}

/// `mix`: which fragments may be drawn. 0 = C01 fragment only (basic + coinductive), 1 = + auto + assoc,
/// 2 = everything incl. growing where-clauses, hierarchy and builtin.
pub fn workload(r: &mut Rng, k: u64, mix: u32, ngoals: usize) -> Work {
    let sel = match mix {
        0 => k % 6,
        1 => k % 9,
        _ => k % 12,
    };
    // one slot of every mix: the multi-answer fragment
    if matches!((mix, sel), (0, 5) | (1, 8)) || (mix >= 2 && sel == 11) {
        let (prog, pool) = gen_multi_answer(r);
        let mut pool = pool;
        r.shuffle(&mut pool);
        let goals = pool.into_iter().take(ngoals).map(|(g, e)| (goal_text(&g), e, Some(g))).collect();
        let text = program_text(&prog);
        return Work { prog, text, goals, fragment: "multi-answer" };
    }
    // one slot of every mix is the propositional fragment (dense cycles on a single struct)
    let sel = match (mix, sel) {
        (0, 4) | (1, 7) | (_, 10) => {
            let coinductive = (k / 11) % 3 == 2;
            let prog = gen_propositional(r, coinductive);
            let goals = gen_propositional_goals(r, &prog, ngoals, !coinductive).into_iter().map(|g| (goal_text(&g), vec![], Some(g))).collect();
            let text = program_text(&prog);
            return Work { prog, text, goals, fragment: "propositional" };
        }
        (_, s) => s,
    };
    match sel {
        0..=3 | 7 => {
            let cfg = match sel {
                0 => GenCfg::default(),
                1 => GenCfg { coinductive_pct: 50, ..Default::default() },
                2 => GenCfg { param_trait_pct: 60, ..Default::default() },
                3 => GenCfg { coinductive_pct: 30, param_trait_pct: 40, ..Default::default() },
                _ => GenCfg { increasing_pct: 40, coinductive_pct: 20, ..Default::default() },
            };
            let prog = gen_program(r, &cfg);
            let goals = (0..ngoals)
                .map(|gi| {
                    let (g, e) = gen_goal(r, &prog, &GoalCfg { closed_only: gi % 3 == 0, allow_not: true, allow_eq: true, need_exists: gi % 3 == 1 });
                    (goal_text(&g), e, Some(g))
                })
                .collect();
            let text = program_text(&prog);
            Work { prog, text, goals, fragment: if sel == 7 { "basic-growing" } else { "basic" } }
        }
        4 => {
            let prog = gen_auto_program(r);
            let mut goals = vec![];
            for _ in 0..ngoals {
                let t = gen_ground_ty(r, &prog, 2);
                let tr = r.pick(&prog.traits).name.clone();
                goals.push((pred_text(&MPred::new(&tr, vec![t])), vec![], None));
            }
            let text = program_text(&prog);
            Work { prog, text, goals, fragment: "auto" }
        }
        5 | 6 => {
            let (prog, gs) = crate::props::c07::gen_assoc(r);
            let goals = gs.into_iter().take(ngoals).map(|g| (g.text, g.exs, None)).collect();
            let text = program_text(&prog);
            Work { prog, text, goals, fragment: "assoc" }
        }
        8 => {
            let (prog, gs) = crate::props::c06::gen_hierarchy_m(r);
            let goals = gs.iter().take(ngoals).map(|g| (goal_text(g), vec![], Some(g.clone()))).collect();
            let text = program_text(&prog);
            Work { prog, text, goals, fragment: "hierarchy" }
        }
        _ => {
            let (prog, gs) = crate::props::c08::gen_builtin(r);
            let goals = gs.iter().take(ngoals).map(|g| (pred_text(g), vec![], None)).collect();
            let text = crate::props::c08::builtin_program_text(&prog);
            Work { prog, text, goals, fragment: "builtin" }
        }
    }
}
