//! C13 – declaration order does not change solutions.
use crate::case::{CaseOut, Ctx, Tier};
use crate::common::*;
use crate::drive::*;
use crate::json::J;
use crate::model::*;
use crate::props::workload::workload;
use crate::rng::Rng;
use chalk_solve::Solution;

pub fn cases(t: Tier) -> u64 {
    match t {
        Tier::Quick => 400,
        Tier::Thorough => 6000,
    }
}

fn trivial_unique(s: &Option<Solution<I>>) -> bool {
    match s {
        Some(Solution::Unique(c)) => !c.value.subst.is_empty(chalk_integration::interner::ChalkIr) && c.value.subst.is_identity_subst(chalk_integration::interner::ChalkIr),
        _ => false,
    }
}

pub fn run(ctx: &Ctx, out: &mut CaseOut) {
    let mut r = Rng::for_case(ctx.prop, ctx.seed, ctx.k);
    // non-increasing programs of the basic / auto / assoc fragments (size limits are never reached)
    let w = workload(&mut r, ctx.k, 1, 8);
    let mut perms: Vec<String> = vec![];
    for pi in 0..3 {
        let mut p2 = w.prog.clone();
        r.shuffle(&mut p2.impls);
        r.shuffle(&mut p2.structs);
        r.shuffle(&mut p2.traits);
        for im in p2.impls.iter_mut() {
            if pi % 2 == 0 {
                im.wheres.reverse();
            } else {
                r.shuffle(&mut im.wheres);
            }
        }
        for t in p2.traits.iter_mut() {
            t.supers.reverse();
        }
        for s in p2.structs.iter_mut() {
            s.wheres.reverse();
            if !s.variants.is_empty() && s.variants.len() == 2 && pi == 1 {
                // swap the two variants (with their fields)
                let (a, b) = (s.variants[0], s.variants[1]);
                let mut f = s.fields[a..].to_vec();
                f.extend_from_slice(&s.fields[..a]);
                s.fields = f;
                s.variants = vec![b, a];
            }
        }
        // interleave item kinds as well
        let mut items = program_items(&p2);
        if pi == 2 {
            r.shuffle(&mut items);
        }
        perms.push(items.join(""));
    }
    out.sample = Some(J::obj().set("fragment", w.fragment).set("original", w.text.as_str()).set("permuted", perms[2].as_str()).set("goal", w.goals.get(0).map(|g| g.0.clone()).unwrap_or_default()));
    for choice in both() {
        let l0 = match load(&w.text, choice, false) {
            Ok(l) => l,
            Err(_) => {
                out.inconclusive("generated program failed to lower");
                return;
            }
        };
        let base: Vec<Option<(Option<Solution<I>>, String, bool, bool)>> = with_program(&l0, || {
            w.goals
                .iter()
                .map(|(g, e, _)| {
                    let p = lower_and_peel(&l0, g, e).ok()?;
                    let db = FaultDb::new(&*l0.program, solver_name(&choice));
                    db.budget.set(300_000);
                    let is_slg = solver_name(&choice) == "slg";
                    let mut slg_s = chalk_engine::solve::SLGSolver::<I>::new(10, None);
                    let mut other = choice.into_solver();
                    let o = if is_slg { solve(&mut slg_s, &db, &p.goal) } else { solve(&mut *other, &db, &p.goal) };
                    match o {
                        Outcome::Answer(a) => {
                            let d = disp(&a);
                            let sub = is_slg && slg_subsumed_answers(&mut slg_s);
                            let st = is_slg && slg_stale_table(&mut slg_s, &p.goal);
                            Some((a, d, sub, st))
                        }
                        _ => None,
                    }
                })
                .collect()
        });
        for ptext in &perms {
            let l = match load(ptext, choice, false) {
                Ok(l) => l,
                Err(e) => {
                    out.inconclusive(&format!("permuted program failed to lower: {}", crate::case::truncate(&e, 80)));
                    continue;
                }
            };
            with_program(&l, || {
                for (gi, (g, e, _)) in w.goals.iter().enumerate() {
                    let (ba, bd, bsub, bstale) = match &base[gi] {
                        Some(x) => x,
                        None => continue,
                    };
                    let p = match lower_and_peel(&l, g, e) {
                        Ok(p) => p,
                        Err(_) => {
                            out.inconclusive("goal failed to lower on the permuted program");
                            continue;
                        }
                    };
                    let db = FaultDb::new(&*l.program, solver_name(&choice));
                    db.budget.set(300_000);
                    let is_slg = solver_name(&choice) == "slg";
                    let mut slg_s = chalk_engine::solve::SLGSolver::<I>::new(10, None);
                    let mut other = choice.into_solver();
                    let o = if is_slg { solve(&mut slg_s, &db, &p.goal) } else { solve(&mut *other, &db, &p.goal) };
                    let stale = is_slg && crate::common::slg_stale_table(&mut slg_s, &p.goal);
                    out.evals += 1;
                    if let Outcome::Answer(a) = o {
                        let d = disp(&a);
                        if &d != bd {
                            let asub = is_slg && slg_subsumed_answers(&mut slg_s);
                            if std::env::var_os("VERIF_TRACE").is_some() && is_slg {
                                eprintln!("[mismatch] base={} permuted={} asub={} bsub={}", bd, d, asub, bsub);
                                for t in slg_s.verif_tables() {
                                    eprintln!("[table] {} co={} fl={} answers={} amb={} cond={} strands={} delayed={:?}", t.goal_body, t.coinductive, t.floundered, t.answers, t.ambiguous_answers, t.answers_with_delayed_subgoals, t.strands, t.delayed_goals);
                                }
                            }
                            let order_sig = if is_slg { slg_order_signature(&d, asub, bd, *bsub) } else { None };
                            let is_f12 = solver_name(&choice) == "slg" && ((trivial_unique(&a) && ba.as_ref().map_or(false, |s| s.is_ambig())) || (trivial_unique(ba) && a.as_ref().map_or(false, |s| s.is_ambig())));
                            // F11 loses answers depending on the order in which the cycle is entered; the original program may
                            // have lost it too, so either side being `None` with a stale table observed on this side counts
                            let f11 = is_slg && ((stale && a.is_none() && ba.is_some()) || (*bstale && ba.is_none() && a.is_some()));
                            let sig = if is_f12 {
                                Some("slg:trivial-answer-green-cut-order")
                            } else if f11 {
                                Some("slg:stale-delayed-answer-table")
                            } else {
                                order_sig
                            };
                            out.violation(sig, format!("{}: `{}` on the original program but `{}` after reordering items", solver_name(&choice), bd, d), detail(&w.text, g, &choice).set("permuted_program", ptext.as_str()).set("original_answer", bd.as_str()).set("permuted_answer", d.as_str()));
                        } else {
                            out.count(&format!("same-answer:{}:{}", solver_name(&choice), w.fragment));
                            out.nt(&format!("{}|{}|{}|{}", ptext, g, solver_name(&choice), d));
                        }
                    } else {
                        out.count("solve-panicked-or-over-budget(see C09)");
                    }
                }
            });
        }
    }
}
