//! C25 – binder operations obey the substitution laws; folding with a no-op folder is the identity.
//! C26 – type flags summarize a type's contents accurately.
use crate::case::{CaseOut, Ctx, Tier};
use crate::drive::I;
use crate::irfull::*;
use crate::json::J;
use crate::rng::Rng;
use chalk_integration::interner::ChalkIr;
use chalk_ir::fold::shift::Shift;
use chalk_ir::fold::{FallibleTypeFolder, Subst, TypeFoldable};
use chalk_ir::*;

pub fn cases(t: Tier) -> u64 {
    match t {
        Tier::Quick => 2000,
        Tier::Thorough => 40000,
    }
}

struct Noop;
impl FallibleTypeFolder<I> for Noop {
    type Error = std::convert::Infallible;
    fn as_dyn(&mut self) -> &mut dyn FallibleTypeFolder<I, Error = Self::Error> {
        self
    }
    fn interner(&self) -> I {
        ChalkIr
    }
}

fn cx(scopes: Vec<Vec<VK>>, infer: bool) -> GenCtx {
    GenCtx { scopes, free_levels: 2, allow_infer: infer }
}

fn params_for(r: &mut Rng, kinds: &[VK]) -> Vec<IArg> {
    kinds
        .iter()
        .map(|k| {
            let mut c = cx(vec![], true);
            match k {
                VK::Ty => IArg::Ty(gen_ty(r, &mut c, 2)),
                VK::Lt => IArg::Lt(gen_lt(r, &c)),
                VK::Ct => IArg::Ct(gen_ct(r, &c)),
            }
        })
        .collect()
}

fn identity_params(kinds: &[VK]) -> Vec<IArg> {
    kinds
        .iter()
        .enumerate()
        .map(|(i, k)| match k {
            VK::Ty => IArg::Ty(ITy::Bound(0, i)),
            VK::Lt => IArg::Lt(ILt::Bound(0, i)),
            VK::Ct => IArg::Ct(ICt::Bound(0, i)),
        })
        .collect()
}

pub fn run(ctx: &Ctx, out: &mut CaseOut) {
    let mut r = Rng::for_case(ctx.prop, ctx.seed, ctx.k);
    let i = ChalkIr;
    for rep in 0..12 {
        let depth = 1 + r.below(3);
        // ---- a term under one binder with random kinds
        let kinds: Vec<VK> = (0..1 + r.below(3)).map(|_| free_kind(r.below(3))).collect();
        let which = rep % 3;
        let bad = |what: &str, term: String, expected: String, got: String| J::obj().set("law", what).set("term", term).set("expected", expected).set("got", got);
        match which {
            0 => {
                let mut c = cx(vec![kinds.clone()], true);
                let t = gen_ty(&mut r, &mut c, depth);
                let ct = ty_c(&t);
                out.evals += 1;
                // (1) shifted_in raises exactly the free variables
                let sh = shift_fn(1);
                let want = ty_c(&Mapper { f: &sh }.ty(&t, 0));
                let got = ct.clone().shifted_in(i);
                if got != want {
                    out.violation(None, "shifted_in does not raise exactly the free variables by one", bad("shifted_in", format!("{:?}", ct), format!("{:?}", want), format!("{:?}", got)));
                    return;
                }
                // (2) round trips through k levels
                for k in 1..4u32 {
                    let up = ct.clone().shifted_in_from(i, DebruijnIndex::new(k));
                    match up.clone().shifted_out_to(i, DebruijnIndex::new(k)) {
                        Ok(back) if back == ct => {}
                        other => {
                            out.violation(None, format!("shifted_out_to(shifted_in_from(t, {0}), {0}) != t", k), bad("shift-roundtrip", format!("{:?}", ct), format!("{:?}", ct), format!("{:?}", other)));
                            return;
                        }
                    }
                }
                // shifted_out succeeds exactly when no variable of the removed level occurs
                let so = ct.clone().shifted_out(i);
                let lvl0 = has_level0_free(&t);
                match (lvl0, so) {
                    (true, Ok(x)) => {
                        out.violation(None, "shifted_out succeeded although a variable of the innermost level occurs", bad("shifted_out", format!("{:?}", ct), "Err".into(), format!("{:?}", x)));
                        return;
                    }
                    (false, Err(_)) => {
                        out.violation(None, "shifted_out failed although no variable of the innermost level occurs", bad("shifted_out", format!("{:?}", ct), "Ok".into(), "Err".into()));
                        return;
                    }
                    (false, Ok(x)) => {
                        let f = shift_out_fn();
                        let want = ty_c(&Mapper { f: &f }.ty(&t, 0));
                        if x != want {
                            out.violation(None, "shifted_out does not lower exactly the free variables by one", bad("shifted_out", format!("{:?}", ct), format!("{:?}", want), format!("{:?}", x)));
                            return;
                        }
                    }
                    _ => {}
                }
                // (3) substitution: identity and arbitrary parameters against the reference
                for ident in [true, false] {
                    let params = if ident { identity_params(&kinds) } else { params_for(&mut r, &kinds) };
                    let f = subst_fn(&params);
                    let want = ty_c(&Mapper { f: &f }.ty(&t, 0));
                    let cparams: Vec<GenericArg<I>> = params.iter().map(arg_c).collect();
                    let got = Subst::apply(i, &cparams, ct.clone());
                    if got != want {
                        out.violation(None, if ident { "substituting a binder's own variables for itself is not the identity (modulo lowering outer variables)" } else { "Subst::apply differs from the reference substitution" }, bad("subst", format!("{:?} with {:?}", ct, cparams), format!("{:?}", want), format!("{:?}", got)));
                        return;
                    }
                    // via Binders::substitute
                    let b = Binders::new(VariableKinds::from_iter(i, kinds.iter().map(|k| match k { VK::Ty => VariableKind::Ty(TyVariableKind::General), VK::Lt => VariableKind::Lifetime, VK::Ct => VariableKind::Const(TyKind::Scalar(Scalar::Uint(UintTy::Usize)).intern(i)) })), ct.clone());
                    let got2 = b.substitute(i, &cparams[..]);
                    if got2 != want {
                        out.violation(None, "Binders::substitute differs from the reference substitution", bad("Binders::substitute", format!("{:?} with {:?}", ct, cparams), format!("{:?}", want), format!("{:?}", got2)));
                        return;
                    }
                    if !ident {
                        // (4) substitution commutes with shifting
                        let lhs = got.clone().shifted_in(i);
                        let shp: Vec<GenericArg<I>> = cparams.iter().map(|p| p.clone().shifted_in(i)).collect();
                        let outer = |k: VK, db: usize, ix: usize, d: usize| -> VarRepl {
                            let nd = if db >= d + 1 { db + 1 } else { db };
                            match k {
                                VK::Ty => VarRepl::Ty(ITy::Bound(nd, ix)),
                                VK::Lt => VarRepl::Lt(ILt::Bound(nd, ix)),
                                VK::Ct => VarRepl::Ct(ICt::Bound(nd, ix)),
                            }
                        };
                        let t2 = ty_c(&Mapper { f: &outer }.ty(&t, 0));
                        let rhs = Subst::apply(i, &shp, t2);
                        if lhs != rhs {
                            out.violation(None, "substitution does not commute with shifting", bad("subst∘shift", format!("{:?} with {:?}", ct, cparams), format!("{:?}", lhs), format!("{:?}", rhs)));
                            return;
                        }
                    }
                }
                // (5) no-op fold
                let folded = ct.clone().try_fold_with(&mut Noop, DebruijnIndex::INNERMOST).unwrap();
                if folded != ct {
                    out.violation(None, "folding a type with a folder that changes nothing returned a different type", bad("noop-fold", format!("{:?}", ct), format!("{:?}", ct), format!("{:?}", folded)));
                    return;
                }
                out.count("laws-checked:ty");
                out.count(&format!("head:{}", head_name(&t)));
                out.nt(&format!("{:?}", t));
                if out.sample.is_none() {
                    out.sample = Some(J::obj().set("kind", "type under a binder").set("binder_kinds", format!("{:?}", kinds)).set("term", format!("{:?}", ct)));
                }
            }
            1 => {
                let mut c = cx(vec![kinds.clone()], true);
                let g = gen_goal(&mut r, &mut c, depth);
                let cg = goal_c(&g);
                out.evals += 1;
                let sh = shift_fn(1);
                let want = goal_c(&Mapper { f: &sh }.goal(&g, 0));
                let got = cg.clone().shifted_in(i);
                if got != want {
                    out.violation(None, "shifted_in on a goal does not raise exactly the free variables by one", bad("shifted_in", format!("{:?}", cg), format!("{:?}", want), format!("{:?}", got)));
                    return;
                }
                match got.clone().shifted_out(i) {
                    Ok(back) if back == cg => {}
                    other => {
                        out.violation(None, "shifting a goal in and out does not return it unchanged", bad("shift-roundtrip", format!("{:?}", cg), format!("{:?}", cg), format!("{:?}", other)));
                        return;
                    }
                }
                let params = params_for(&mut r, &kinds);
                let f = subst_fn(&params);
                let want = goal_c(&Mapper { f: &f }.goal(&g, 0));
                let cparams: Vec<GenericArg<I>> = params.iter().map(arg_c).collect();
                let got = Subst::apply(i, &cparams, cg.clone());
                if got != want {
                    out.violation(None, "Subst::apply on a goal differs from the reference substitution", bad("subst", format!("{:?} with {:?}", cg, cparams), format!("{:?}", want), format!("{:?}", got)));
                    return;
                }
                let ident: Vec<GenericArg<I>> = identity_params(&kinds).iter().map(arg_c).collect();
                let idf = identity_params(&kinds);
                let f2 = subst_fn(&idf);
                let want_id = goal_c(&Mapper { f: &f2 }.goal(&g, 0));
                if Subst::apply(i, &ident, cg.clone()) != want_id {
                    out.violation(None, "identity substitution on a goal is not the identity (modulo lowering outer variables)", bad("subst-identity", format!("{:?}", cg), format!("{:?}", want_id), "".into()));
                    return;
                }
                // no-op folds of the derived impls
                let env = Environment::new(i).add_clauses(i, vec![clause_c(&gen_clause(&mut r, &mut c, 1))]);
                let ie = InEnvironment::new(&env, cg.clone());
                if ie.clone().try_fold_with(&mut Noop, DebruijnIndex::INNERMOST).unwrap() != ie {
                    out.violation(None, "no-op fold of InEnvironment<Goal> changed it", bad("noop-fold", format!("{:?}", ie), "".into(), "".into()));
                    return;
                }
                let canon = Canonical { binders: CanonicalVarKinds::from_iter(i, kinds.iter().map(|k| CanonicalVarKind::new(match k { VK::Ty => VariableKind::Ty(TyVariableKind::General), VK::Lt => VariableKind::Lifetime, VK::Ct => VariableKind::Const(TyKind::Scalar(Scalar::Uint(UintTy::Usize)).intern(i)) }, UniverseIndex::root()))), value: ie.clone() };
                if canon.clone().try_fold_with(&mut Noop, DebruijnIndex::INNERMOST).unwrap() != canon {
                    out.violation(None, "no-op fold of Canonical<InEnvironment<Goal>> changed it", bad("noop-fold", format!("{:?}", canon), "".into(), "".into()));
                    return;
                }
                if cg.clone().try_fold_with(&mut Noop, DebruijnIndex::INNERMOST).unwrap() != cg {
                    out.violation(None, "no-op fold of a goal changed it", bad("noop-fold", format!("{:?}", cg), "".into(), "".into()));
                    return;
                }
                out.count("laws-checked:goal");
                out.nt(&format!("{:?}", g));
            }
            _ => {
                let mut c = cx(vec![kinds.clone()], true);
                let cl = gen_clause(&mut r, &mut c, depth.min(2));
                let cc = clause_c(&cl);
                out.evals += 1;
                let sh = shift_fn(1);
                let want = clause_c(&Mapper { f: &sh }.clause(&cl, 0));
                let got = cc.clone().shifted_in(i);
                if got != want {
                    out.violation(None, "shifted_in on a program clause does not raise exactly the free variables by one", bad("shifted_in", format!("{:?}", cc), format!("{:?}", want), format!("{:?}", got)));
                    return;
                }
                let params = params_for(&mut r, &kinds);
                let f = subst_fn(&params);
                let want = clause_c(&Mapper { f: &f }.clause(&cl, 0));
                let cparams: Vec<GenericArg<I>> = params.iter().map(arg_c).collect();
                let got = Subst::apply(i, &cparams, cc.clone());
                if got != want {
                    out.violation(None, "Subst::apply on a program clause differs from the reference substitution", bad("subst", format!("{:?} with {:?}", cc, cparams), format!("{:?}", want), format!("{:?}", got)));
                    return;
                }
                if cc.clone().try_fold_with(&mut Noop, DebruijnIndex::INNERMOST).unwrap() != cc {
                    out.violation(None, "no-op fold of a program clause changed it", bad("noop-fold", format!("{:?}", cc), "".into(), "".into()));
                    return;
                }
                let wc = wc_c(&cl.consequence);
                if wc.clone().try_fold_with(&mut Noop, DebruijnIndex::INNERMOST).unwrap() != wc {
                    out.violation(None, "no-op fold of a where-clause changed it", bad("noop-fold", format!("{:?}", wc), "".into(), "".into()));
                    return;
                }
                let dg = DomainGoal::Holds(wc.clone());
                if dg.clone().try_fold_with(&mut Noop, DebruijnIndex::INNERMOST).unwrap() != dg {
                    out.violation(None, "no-op fold of a domain goal changed it", bad("noop-fold", format!("{:?}", dg), "".into(), "".into()));
                    return;
                }
                let cs = ConstrainedSubst { subst: Substitution::from_iter(i, cparams.clone()), constraints: Constraints::empty(i) };
                if cs.clone().try_fold_with(&mut Noop, DebruijnIndex::INNERMOST).unwrap() != cs {
                    out.violation(None, "no-op fold of a ConstrainedSubst changed it", bad("noop-fold", format!("{:?}", cs), "".into(), "".into()));
                    return;
                }
                out.count("laws-checked:clause");
                out.nt(&format!("{:?}", cl));
            }
        }
    }
}

pub fn cases26(t: Tier) -> u64 {
    match t {
        Tier::Quick => 2000,
        Tier::Thorough => 40000,
    }
}

pub fn run26(ctx: &Ctx, out: &mut CaseOut) {
    let mut r = Rng::for_case(ctx.prop, ctx.seed, ctx.k);
    let i = ChalkIr;
    let mask = !TypeFlags::STILL_FURTHER_SPECIALIZABLE;
    for _ in 0..25 {
        let mut c = GenCtx { scopes: vec![], free_levels: 2, allow_infer: true };
        let depth = 1 + r.below(4);
        let t = gen_ty(&mut r, &mut c, depth);
        let ct = ty_c(&t);
        let got = ct.data(i).flags & mask;
        let want = ref_flags(&t);
        out.evals += 1;
        if got != want {
            out.violation(
                None,
                format!("type flags {:?} differ from what occurs inside the type ({:?})", got, want),
                J::obj().set("type", format!("{:?}", ct)).set("mirror", format!("{:?}", t)).set("flags", format!("{:?}", got)).set("expected", format!("{:?}", want)).set("missing", format!("{:?}", want - got)).set("spurious", format!("{:?}", got - want)),
            );
            return;
        }
        out.count(&format!("head:{}", head_name(&t)));
        for (name, _) in want.iter_names() {
            out.count(&format!("flag-seen:{}", name));
        }
        if !want.is_empty() {
            out.nt(&format!("{:?}", t));
        }
        if out.sample.is_none() && !want.is_empty() {
            out.sample = Some(J::obj().set("type", format!("{:?}", ct)).set("flags", format!("{:?}", got)));
        }
    }
}
