//! C17 – combining candidate answers only generalizes (anti-unification, may-invalidate, Solution::combine).
use crate::case::{CaseOut, Ctx, Tier};
use crate::drive::*;
use crate::gen::*;
use crate::irgen::{arity, usize_ty, TermCfg, C, K, L, T};
use crate::json::J;
use crate::model::{goal_text, program_text};
use crate::rng::Rng;
use chalk_engine::slg::verif::{verif_is_trivial, verif_may_invalidate, verif_merge_into_guidance};
use chalk_integration::interner::{ChalkIr, RawId};
use chalk_ir::cast::Cast;
use chalk_ir::*;
use chalk_solve::{Guidance, Solution, SubstitutionResult};
use std::collections::BTreeMap;

pub fn cases(t: Tier) -> u64 {
    match t {
        Tier::Quick => 2000,
        Tier::Thorough => 40000,
    }
}

fn bvar(i: usize) -> BoundVar {
    BoundVar::new(DebruijnIndex::INNERMOST, i)
}

/// Mirror term -> canonical chalk type (Var(i) = ^0.i)
fn ty_canon(t: &T, kinds: &[K]) -> Ty<I> {
    let i = ChalkIr;
    let m = |b: bool| if b { Mutability::Mut } else { Mutability::Not };
    let lt = |l: &L| -> Lifetime<I> {
        match l {
            L::Static => LifetimeData::Static.intern(i),
            L::Ph(u, k) => LifetimeData::Placeholder(PlaceholderIndex { ui: UniverseIndex { counter: *u }, idx: *k }).intern(i),
            L::Var(v) => LifetimeData::BoundVar(bvar(*v)).intern(i),
        }
    };
    match t {
        T::App(c, a) => TyKind::Adt(AdtId(RawId { index: *c }), Substitution::from_iter(i, a.iter().map(|x| ty_canon(x, kinds).cast::<GenericArg<I>>(i)))).intern(i),
        T::Tuple(a) => TyKind::Tuple(a.len(), Substitution::from_iter(i, a.iter().map(|x| ty_canon(x, kinds).cast::<GenericArg<I>>(i)))).intern(i),
        T::Slice(x) => TyKind::Slice(ty_canon(x, kinds)).intern(i),
        T::Ref(mu, l, x) => TyKind::Ref(m(*mu), lt(l), ty_canon(x, kinds)).intern(i),
        T::Raw(mu, x) => TyKind::Raw(m(*mu), ty_canon(x, kinds)).intern(i),
        T::Arr(x, c) => TyKind::Array(ty_canon(x, kinds), const_canon(c)).intern(i),
        T::Scalar(0) => TyKind::Scalar(Scalar::Int(IntTy::I32)).intern(i),
        T::Scalar(1) => TyKind::Scalar(Scalar::Uint(UintTy::U8)).intern(i),
        T::Scalar(2) => TyKind::Scalar(Scalar::Bool).intern(i),
        T::Scalar(_) => TyKind::Scalar(Scalar::Float(FloatTy::F64)).intern(i),
        T::Ph(u, k) => TyKind::Placeholder(PlaceholderIndex { ui: UniverseIndex { counter: *u }, idx: *k }).intern(i),
        T::Var(v) => TyKind::BoundVar(bvar(*v)).intern(i),
    }
}

fn const_canon(c: &C) -> Const<I> {
    let i = ChalkIr;
    match c {
        C::Val(n) => ConstData { ty: usize_ty(), value: ConstValue::Concrete(ConcreteConst { interned: *n }) }.intern(i),
        C::Ph(u, k) => PlaceholderIndex { ui: UniverseIndex { counter: *u }, idx: *k }.to_const(i, usize_ty()),
        C::Var(v) => ConstData { ty: usize_ty(), value: ConstValue::BoundVar(bvar(*v)) }.intern(i),
    }
}

/// canonical chalk type -> mirror (lifetimes erased to Static, since guidance ignores them)
fn ty_back(ty: &Ty<I>) -> Result<T, String> {
    let i = ChalkIr;
    let args = |s: &Substitution<I>| -> Result<Vec<T>, String> { s.iter(i).map(|a| a.ty(i).ok_or("non-type arg".to_string()).and_then(ty_back)).collect() };
    Ok(match ty.kind(i) {
        TyKind::Adt(id, s) => T::App(id.0.index, args(s)?),
        TyKind::Tuple(_, s) => T::Tuple(args(s)?),
        TyKind::Slice(x) => T::Slice(Box::new(ty_back(x)?)),
        TyKind::Ref(m, l, x) => T::Ref(
            *m == Mutability::Mut,
            match l.data(i) {
                LifetimeData::Static => L::Static,
                LifetimeData::Placeholder(p) => L::Ph(p.ui.counter, p.idx),
                LifetimeData::BoundVar(b) => L::Var(b.index),
                other => return Err(format!("unexpected lifetime {:?}", other)),
            },
            Box::new(ty_back(x)?),
        ),
        TyKind::Raw(m, x) => T::Raw(*m == Mutability::Mut, Box::new(ty_back(x)?)),
        TyKind::Array(x, c) => T::Arr(
            Box::new(ty_back(x)?),
            match &c.data(i).value {
                ConstValue::Concrete(cc) => C::Val(cc.interned),
                ConstValue::Placeholder(p) => C::Ph(p.ui.counter, p.idx),
                ConstValue::BoundVar(b) => C::Var(b.index),
                ConstValue::InferenceVar(_) => return Err("inference const in canonical value".into()),
            },
        ),
        TyKind::Scalar(Scalar::Int(_)) => T::Scalar(0),
        TyKind::Scalar(Scalar::Uint(_)) => T::Scalar(1),
        TyKind::Scalar(Scalar::Bool) => T::Scalar(2),
        TyKind::Scalar(_) => T::Scalar(3),
        TyKind::Placeholder(p) => T::Ph(p.ui.counter, p.idx),
        TyKind::BoundVar(b) if b.debruijn == DebruijnIndex::INNERMOST => T::Var(b.index),
        other => return Err(format!("unexpected type {:?}", other)),
    })
}

fn erase_lt(t: &T) -> T {
    match t {
        T::App(c, a) => T::App(*c, a.iter().map(erase_lt).collect()),
        T::Tuple(a) => T::Tuple(a.iter().map(erase_lt).collect()),
        T::Slice(x) => T::Slice(Box::new(erase_lt(x))),
        T::Ref(m, _, x) => T::Ref(*m, L::Static, Box::new(erase_lt(x))),
        T::Raw(m, x) => T::Raw(*m, Box::new(erase_lt(x))),
        T::Arr(x, c) => T::Arr(Box::new(erase_lt(x)), c.clone()),
        o => o.clone(),
    }
}

/// One-way matching: is `term` an instance of `pat`? Pattern variables (types and consts) bind consistently; the
/// term's own variables are rigid.
fn matches(pat: &T, term: &T, b: &mut BTreeMap<usize, T>, cb: &mut BTreeMap<usize, C>) -> bool {
    // lifetimes: a lifetime variable of the pattern matches any lifetime (consistently; they share `cb`'s key space
    // shifted by 10_000), a concrete lifetime only itself
    fn lt(p: &L, t: &L, cb: &mut BTreeMap<usize, C>) -> bool {
        let enc = |l: &L| match l {
            L::Static => C::Val(u32::MAX),
            L::Ph(u, k) => C::Ph(*u, *k),
            L::Var(v) => C::Var(*v),
        };
        match p {
            L::Var(v) => match cb.get(&(10_000 + *v)) {
                Some(x) => *x == enc(t),
                None => {
                    cb.insert(10_000 + *v, enc(t));
                    true
                }
            },
            other => other == t,
        }
    }
    match (pat, term) {
        (T::Var(v), t) => match b.get(v) {
            Some(x) => x == t,
            None => {
                b.insert(*v, t.clone());
                true
            }
        },
        (T::App(c1, a1), T::App(c2, a2)) => c1 == c2 && a1.len() == a2.len() && a1.iter().zip(a2).all(|(x, y)| matches(x, y, b, cb)),
        (T::Tuple(a1), T::Tuple(a2)) => a1.len() == a2.len() && a1.iter().zip(a2).all(|(x, y)| matches(x, y, b, cb)),
        (T::Slice(x), T::Slice(y)) => matches(x, y, b, cb),
        (T::Ref(m1, l1, x), T::Ref(m2, l2, y)) => m1 == m2 && lt(l1, l2, cb) && matches(x, y, b, cb),
        (T::Raw(m1, x), T::Raw(m2, y)) => m1 == m2 && matches(x, y, b, cb),
        (T::Arr(x, c1), T::Arr(y, c2)) => {
            matches(x, y, b, cb)
                && match (c1, c2) {
                    (C::Var(v), c) => match cb.get(v) {
                        Some(x) => x == c,
                        None => {
                            cb.insert(*v, c.clone());
                            true
                        }
                    },
                    (a, c) => a == c,
                }
        }
        (T::Scalar(x), T::Scalar(y)) => x == y,
        (T::Ph(u1, k1), T::Ph(u2, k2)) => u1 == u2 && k1 == k2,
        _ => false,
    }
}

fn subst_matches(pat: &[T], term: &[T]) -> bool {
    let mut b = BTreeMap::new();
    let mut cb = BTreeMap::new();
    pat.len() == term.len() && pat.iter().zip(term).all(|(p, t)| matches(p, t, &mut b, &mut cb))
}

fn gen_subst(r: &mut Rng, n: usize, base: Option<&Vec<T>>) -> (Vec<T>, Vec<K>) {
    // variables of the substitution itself: 0-3 type vars, maybe a const var
    let mut kinds: Vec<K> = (0..r.below(4)).map(|_| K::Gen).collect();
    if r.chance(25) {
        kinds.push(K::Const);
    }
    if r.chance(20) {
        kinds.push(K::Lt);
    }
    let cfg = TermCfg { lifetimes: true, consts: true, max_ph_universe: 2 };
    let tys: Vec<T> = (0..n)
        .map(|j| match base {
            // a variant of the base substitution: shares structure so that anti-unification is interesting
            Some(b) if r.chance(70) => vary(r, &b[j], &kinds, &cfg),
            _ => {
                let d = 1 + r.below(3);
                crate::irgen::gen_term(r, &kinds, d, &cfg)
            }
        })
        .collect();
    (tys, kinds)
}

fn vary(r: &mut Rng, t: &T, kinds: &[K], cfg: &TermCfg) -> T {
    if r.chance(20) {
        return crate::irgen::gen_term(r, kinds, 1, cfg);
    }
    let tv: Vec<usize> = kinds.iter().enumerate().filter(|(_, k)| **k == K::Gen).map(|(i, _)| i).collect();
    match t {
        T::App(c, a) => T::App(*c, a.iter().map(|x| vary(r, x, kinds, cfg)).collect()),
        T::Tuple(a) => T::Tuple(a.iter().map(|x| vary(r, x, kinds, cfg)).collect()),
        T::Slice(x) => T::Slice(Box::new(vary(r, x, kinds, cfg))),
        T::Ref(m, l, x) => T::Ref(*m, if r.chance(30) { L::Static } else if r.chance(20) { L::Ph(1, 0) } else { l.clone() }, Box::new(vary(r, x, kinds, cfg))),
        T::Raw(m, x) => T::Raw(*m, Box::new(vary(r, x, kinds, cfg))),
        T::Arr(x, c) => T::Arr(Box::new(vary(r, x, kinds, cfg)), if r.chance(30) { C::Val(r.below(3) as u32) } else if matches!(c, C::Var(_)) { C::Val(1) } else { c.clone() }),
        T::Var(_) => {
            if tv.is_empty() {
                T::Scalar(0)
            } else {
                T::Var(*r.pick(&tv))
            }
        }
        o => o.clone(),
    }
}

fn fix_vars(t: &T, kinds: &[K]) -> T {
    // make sure every Var refers to a type variable of `kinds` and const vars to const vars
    let tv: Vec<usize> = kinds.iter().enumerate().filter(|(_, k)| **k == K::Gen).map(|(i, _)| i).collect();
    let cv: Vec<usize> = kinds.iter().enumerate().filter(|(_, k)| **k == K::Const).map(|(i, _)| i).collect();
    let lv: Vec<usize> = kinds.iter().enumerate().filter(|(_, k)| **k == K::Lt).map(|(i, _)| i).collect();
    match t {
        T::App(c, a) => T::App(*c, a.iter().take(arity(*c)).map(|x| fix_vars(x, kinds)).collect()),
        T::Tuple(a) => T::Tuple(a.iter().map(|x| fix_vars(x, kinds)).collect()),
        T::Slice(x) => T::Slice(Box::new(fix_vars(x, kinds))),
        T::Ref(m, l, x) => T::Ref(*m, match l { L::Var(v) if !lv.contains(v) => L::Static, o => o.clone() }, Box::new(fix_vars(x, kinds))),
        T::Raw(m, x) => T::Raw(*m, Box::new(fix_vars(x, kinds))),
        T::Arr(x, c) => T::Arr(Box::new(fix_vars(x, kinds)), match c { C::Var(v) if !cv.contains(v) => C::Val(2), o => o.clone() }),
        T::Var(v) if !tv.contains(v) => T::Scalar(2),
        o => o.clone(),
    }
}

/// Renumber the substitution's own variables by first occurrence and drop unused ones (what a real canonical value
/// looks like).
fn canonize(tys: &[T], kinds: &[K]) -> (Vec<T>, Vec<K>) {
    let mut order: Vec<usize> = vec![];
    fn walk(t: &T, order: &mut Vec<usize>) {
        match t {
            T::Var(v) => {
                if !order.contains(v) {
                    order.push(*v);
                }
            }
            T::App(_, a) | T::Tuple(a) => a.iter().for_each(|x| walk(x, order)),
            T::Slice(x) | T::Raw(_, x) => walk(x, order),
            T::Ref(_, l, x) => {
                if let L::Var(v) = l {
                    if !order.contains(v) {
                        order.push(*v);
                    }
                }
                walk(x, order)
            }
            T::Arr(x, c) => {
                walk(x, order);
                if let C::Var(v) = c {
                    if !order.contains(v) {
                        order.push(*v);
                    }
                }
            }
            _ => {}
        }
    }
    for t in tys {
        walk(t, &mut order);
    }
    fn ren(t: &T, order: &[usize]) -> T {
        let p = |v: &usize| order.iter().position(|x| x == v).unwrap();
        match t {
            T::Var(v) => T::Var(p(v)),
            T::App(c, a) => T::App(*c, a.iter().map(|x| ren(x, order)).collect()),
            T::Tuple(a) => T::Tuple(a.iter().map(|x| ren(x, order)).collect()),
            T::Slice(x) => T::Slice(Box::new(ren(x, order))),
            T::Raw(m, x) => T::Raw(*m, Box::new(ren(x, order))),
            T::Ref(m, l, x) => T::Ref(*m, match l { L::Var(v) => L::Var(p(v)), o => o.clone() }, Box::new(ren(x, order))),
            T::Arr(x, c) => T::Arr(Box::new(ren(x, order)), match c { C::Var(v) => C::Var(p(v)), o => o.clone() }),
            o => o.clone(),
        }
    }
    (tys.iter().map(|t| ren(t, &order)).collect(), order.iter().map(|v| kinds[*v]).collect())
}

fn binders(kinds: &[K], r: &mut Rng) -> CanonicalVarKinds<I> {
    CanonicalVarKinds::from_iter(
        ChalkIr,
        kinds.iter().map(|k| {
            let u = UniverseIndex { counter: r.below(3) };
            match k {
                K::Const => CanonicalVarKind::new(VariableKind::Const(usize_ty()), u),
                K::Lt => CanonicalVarKind::new(VariableKind::Lifetime, u),
                _ => CanonicalVarKind::new(VariableKind::Ty(TyVariableKind::General), u),
            }
        }),
    )
}

fn canon_subst(tys: &[T], kinds: &[K], r: &mut Rng) -> Canonical<Substitution<I>> {
    let i = ChalkIr;
    Canonical { binders: binders(kinds, r), value: Substitution::from_iter(i, tys.iter().map(|t| ty_canon(t, kinds).cast::<GenericArg<I>>(i))) }
}

fn back(c: &Canonical<Substitution<I>>) -> Result<Vec<T>, String> {
    c.value.iter(ChalkIr).map(|a| a.ty(ChalkIr).ok_or("non-type".to_string()).and_then(ty_back)).collect()
}

fn in_situ(ctx: &Ctx, r: &mut Rng, out: &mut CaseOut) {
    // the aggregated definite guidance of a real SLG solve must generalise every answer the same goal enumerates
    let prog = gen_program(r, &GenCfg { increasing_pct: if ctx.k % 8 == 0 { 30 } else { 0 }, ..Default::default() });
    let text = program_text(&prog);
    let l = match load(&text, slg(), false) {
        Ok(l) => l,
        Err(_) => return,
    };
    with_program(&l, || {
        for _ in 0..6 {
            let (g, exs) = gen_goal(r, &prog, &GoalCfg { closed_only: false, allow_not: false, allow_eq: true, need_exists: true });
            let gtext = goal_text(&g);
            let p = match lower_and_peel(&l, &gtext, &exs) {
                Ok(p) => p,
                Err(_) => continue,
            };
            let db = FaultDb::new(&*l.program, "slg");
            db.budget.set(300_000);
            let mut s = slg().into_solver();
            let sol = match solve(&mut *s, &db, &p.goal) {
                Outcome::Answer(Some(s)) => s,
                _ => continue,
            };
            let guidance = match &sol {
                Solution::Unique(c) => Canonical { binders: c.binders.clone(), value: c.value.subst.clone() },
                Solution::Ambig(Guidance::Definite(c)) => c.clone(),
                _ => continue,
            };
            let mut s2 = slg().into_solver();
            let mut answers = vec![];
            db.arm();
            let _ = std::panic::catch_unwind(std::panic::AssertUnwindSafe(|| {
                s2.solve_multiple(&db, &p.goal, &mut |res, _| {
                    if let SubstitutionResult::Definite(c) = res {
                        answers.push(Canonical { binders: c.binders.clone(), value: c.value.subst.clone() });
                    }
                    answers.len() < 25
                })
            }));
            out.evals += 1;
            for a in &answers {
                match crate::props::c04::is_instance_of_pub(a, &guidance, &*l.program) {
                    Ok(true) => out.count("in-situ:answer-is-instance-of-aggregated-guidance"),
                    Ok(false) => {
                        // F20: guidance that repeats one of its own variables is declared final too early
                        let shown = format!("{}", sol.display(ChalkIr));
                        let sig = if crate::common::nonlinear_definite(&shown) { Some("slg:may-invalidate-nonlinear-guidance") } else { None };
                        out.violation(sig, format!("aggregated answer `{}` does not generalise the enumerated answer {:?}", sol.display(ChalkIr), a), J::obj().set("program", text.as_str()).set("goal", gtext.as_str()).set("solution", format!("{}", sol.display(ChalkIr))));
                        return;
                    }
                    Err(_) => out.inconclusive("instance check failed"),
                }
            }
            if answers.len() >= 2 {
                out.nt(&format!("{}|{}", text, gtext));
            }
        }
    });
}

pub fn run(ctx: &Ctx, out: &mut CaseOut) {
    let mut r = Rng::for_case(ctx.prop, ctx.seed, ctx.k);
    let i = ChalkIr;
    if ctx.k % 10 == 9 {
        in_situ(ctx, &mut r, out);
        return;
    }
    for _ in 0..10 {
        let n = 1 + r.below(3);
        // root goal: only its binders (one per substitution entry, with a universe) matter
        let root_binders = CanonicalVarKinds::from_iter(i, (0..n).map(|_| CanonicalVarKind::new(VariableKind::Ty(TyVariableKind::General), UniverseIndex { counter: r.below(3) })));
        let root: Canonical<InEnvironment<Goal<I>>> = Canonical { binders: root_binders, value: InEnvironment::new(&Environment::new(i), GoalData::CannotProve.intern(i)) };
        // a sequence of 2-4 answers, merged one after the other
        let (t0, k0) = gen_subst(&mut r, n, None);
        let t0: Vec<T> = t0.iter().map(|t| fix_vars(t, &k0)).collect();
        let (t0, k0) = canonize(&t0, &k0);
        let mut inputs: Vec<Vec<T>> = vec![t0.clone()];
        let mut guidance = canon_subst(&t0, &k0, &mut r);
        let mut log = vec![format!("start: {:?}", guidance)];
        for _step in 0..1 + r.below(3) {
            let (t1, k1) = gen_subst(&mut r, n, Some(&t0));
            let t1: Vec<T> = t1.iter().map(|t| fix_vars(t, &k1)).collect();
            let (t1, k1) = canonize(&t1, &k1);
            let c1 = canon_subst(&t1, &k1, &mut r);
            let answer = Canonical { binders: c1.binders.clone(), value: ConstrainedSubst { subst: c1.value.clone(), constraints: Constraints::empty(i) } };
            let cur_back = match back(&guidance) {
                Ok(b) => b,
                Err(e) => {
                    out.inconclusive(&format!("cannot mirror guidance: {}", crate::case::truncate(&e, 60)));
                    return;
                }
            };
            let may_inv = verif_may_invalidate(i, &c1.value, &guidance);
            let merged = verif_merge_into_guidance(i, &root, guidance.clone(), &answer);
            out.evals += 1;
            log.push(format!("merge {:?} => {:?} (may_invalidate={})", c1, merged, may_inv));
            let d = |log: &Vec<String>| J::obj().set("history", J::Arr(log.iter().map(|s| J::Str(s.clone())).collect()));
            let mb = match back(&merged) {
                Ok(b) => b,
                Err(e) => {
                    out.violation(None, format!("merged guidance is not a well-formed canonical substitution: {}", e), d(&log));
                    return;
                }
            };
            inputs.push(t1.clone());
            // every merged answer (and the previous guidance) is an instance of the result
            if !subst_matches(&mb, &cur_back) {
                out.violation(None, "the previous guidance is not an instance of the merged guidance".to_string(), d(&log));
                return;
            }
            for inp in &inputs {
                let inp: Vec<T> = inp.clone();
                if !subst_matches(&mb, &inp) {
                    out.violation(None, format!("a merged answer {:?} is not an instance of the resulting guidance {:?}", inp, mb), d(&log));
                    return;
                }
            }
            out.count("merged-answers-are-instances");
            // may_invalidate == false  =>  the merge does not change the guidance (up to renaming)
            if !may_inv {
                // "this answer cannot change the guidance" is only right when the answer is an instance of the guidance
                // (the anti-unifier itself may lose variable sharing; that only makes the guidance weaker)
                let t1e: Vec<T> = t1.clone();
                if !subst_matches(&cur_back, &t1e) {
                    // F20: MayInvalidate treats every variable of the guidance as matching anything, also when the same
                    // variable occurs twice and the answer puts different things there
                    let mut seen = std::collections::BTreeSet::new();
                    let mut repeated = false;
                    fn vars(t: &T, seen: &mut std::collections::BTreeSet<usize>, rep: &mut bool) {
                        match t {
                            T::Var(v) => {
                                if !seen.insert(*v) {
                                    *rep = true;
                                }
                            }
                            T::App(_, a) | T::Tuple(a) => a.iter().for_each(|x| vars(x, seen, rep)),
                            T::Slice(x) | T::Ref(_, _, x) | T::Raw(_, x) => vars(x, seen, rep),
                            T::Arr(x, c) => {
                                vars(x, seen, rep);
                                if let C::Var(v) = c {
                                    if !seen.insert(1000 + *v) {
                                        *rep = true;
                                    }
                                }
                            }
                            _ => {}
                        }
                    }
                    for t in &cur_back {
                        vars(t, &mut seen, &mut repeated);
                    }
                    let sig = if repeated { Some("slg:may-invalidate-nonlinear-guidance") } else { None };
                    out.violation(sig, "may_invalidate said this answer cannot change the guidance, but the answer is not an instance of the guidance".to_string(), d(&log));
                    return;
                }
                out.count("may-invalidate=false:answer-is-instance");
            } else {
                out.count("may-invalidate=true");
            }
            // is_trivial: exactly the identity on types/consts
            let triv = verif_is_trivial(i, &merged);
            let expect = mb.iter().enumerate().all(|(j, t)| *t == T::Var(j));
            if triv != expect {
                out.violation(None, format!("is_trivial = {} for guidance {:?}", triv, merged), d(&log));
                return;
            }
            if triv {
                out.count("is_trivial:true");
            }
            guidance = merged;
        }
        out.nt(&format!("{:?}", log));
        if out.sample.is_none() {
            out.sample = Some(J::obj().set("history", J::Arr(log.iter().map(|s| J::Str(s.clone())).collect())));
        }
        // Solution::combine: commutative, never claims more than either candidate
        let mk = |r: &mut Rng, kind: usize, tys: &Vec<T>, kinds: &Vec<K>| -> Solution<I> {
            let c = canon_subst(tys, kinds, r);
            // candidates for one query: the unknowns they leave open live in the query's (root) universe
            let c = Canonical { binders: CanonicalVarKinds::from_iter(i, c.binders.iter(i).map(|b| CanonicalVarKind::new(b.kind.clone(), UniverseIndex::root()))), value: c.value };
            match kind {
                0 => Solution::Unique(Canonical { binders: c.binders.clone(), value: ConstrainedSubst { subst: c.value.clone(), constraints: Constraints::empty(i) } }),
                1 => Solution::Ambig(Guidance::Definite(c)),
                2 => Solution::Ambig(Guidance::Suggested(c)),
                _ => Solution::Ambig(Guidance::Unknown),
            }
        };
        let (ta, ka) = gen_subst(&mut r, n, None);
        let ta: Vec<T> = ta.iter().map(|t| fix_vars(t, &ka)).collect();
        let (ta, ka) = canonize(&ta, &ka);
        let same = r.chance(35);
        let (tb, kb) = if same { (ta.clone(), ka.clone()) } else { gen_subst(&mut r, n, Some(&ta)) };
        let tb: Vec<T> = tb.iter().map(|t| fix_vars(t, &kb)).collect();
        let (tb, kb) = canonize(&tb, &kb);
        let (kind_a, kind_b) = (r.below(4), r.below(4));
        // identical binders when the substitutions are meant to be the same
        let mut r2 = r.clone();
        let a = mk(&mut r, kind_a, &ta, &ka);
        let b = if same { mk(&mut r2, kind_b, &tb, &kb) } else { mk(&mut r, kind_b, &tb, &kb) };
        let ab = a.clone().combine(b.clone(), i);
        let ba = b.clone().combine(a.clone(), i);
        out.evals += 1;
        let dd = || J::obj().set("a", format!("{}", a.display(i))).set("b", format!("{}", b.display(i))).set("a+b", format!("{}", ab.display(i))).set("b+a", format!("{}", ba.display(i)));
        if ab != ba {
            out.violation(None, "Solution::combine depends on the order of its arguments".to_string(), dd());
            return;
        }
        if ab.is_unique() && !a.is_unique() && !b.is_unique() {
            out.violation(None, "combining two non-unique candidates yields Unique".to_string(), dd());
            return;
        }
        if let Some(ds) = ab.definite_subst(i) {
            let pat: Result<Vec<T>, String> = ds.value.subst.iter(i).map(|x| x.ty(i).ok_or("non-type".to_string()).and_then(ty_back)).collect();
            if let Ok(pat) = pat {
                for (cand, tys) in [(&a, &ta), (&b, &tb)] {
                    if cand.definite_subst(i).is_some() {
                        let e: Vec<T> = tys.clone();
                        if !subst_matches(&pat, &e) {
                            out.violation(None, "the combined solution's definite substitution excludes a candidate's definite substitution".to_string(), dd());
                            return;
                        }
                    } else if !pat.iter().enumerate().all(|(j, t)| *t == T::Var(j)) {
                        // a candidate without definite information permits everything: the result must not claim more
                        out.violation(None, "the combined solution claims a definite substitution although one candidate had none".to_string(), dd());
                        return;
                    }
                }
            }
        }
        out.count(&format!("combine:{}x{}", ["unique", "definite", "suggested", "unknown"][kind_a], ["unique", "definite", "suggested", "unknown"][kind_b]));
    }
}
