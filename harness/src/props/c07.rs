//! C07 – associated types normalize to the value of the applicable impl.
use crate::case::{CaseOut, Ctx, Tier};
use crate::common::*;
use crate::drive::*;
use crate::json::J;
use crate::model::*;
use crate::rng::Rng;
use std::collections::BTreeMap;

pub fn cases(t: Tier) -> u64 {
    match t {
        Tier::Quick => 400,
        Tier::Thorough => 6000,
    }
}

#[derive(Debug, Clone, PartialEq)]
pub enum Norm {
    Value(MTy),
    NoImpl,
    Unknown,
}

/// The associated type of generated trait `TrK` is `OutK` (distinct names: the writer's name disambiguation renames
/// clashing names, which is C22/C23's subject, not C07's).
fn assoc_of(trait_name: &str) -> String {
    format!("Out{}", trait_name.trim_start_matches("Tr"))
}

fn proj(tr: &str, name: &str, args: Vec<MTy>) -> MTy {
    MTy::App(format!("@proj:{}:{}", tr, name), args)
}

/// Independent normaliser over the generator AST.
pub fn normalize(prog: &MProgram, sem: &mut Sem, hyps: &[MPred], tr: &str, name: &str, args: &[MTy], fuel: usize) -> Norm {
    if fuel == 0 {
        return Norm::Unknown;
    }
    let mut found: Option<Norm> = None;
    for im in &prog.impls {
        if !im.positive || im.head.tr != tr || im.head.args.len() != args.len() {
            continue;
        }
        let mut b = BTreeMap::new();
        if !im.head.args.iter().zip(args).all(|(p, t)| match_ty(p, t, &mut b)) {
            continue;
        }
        // where-clauses must hold
        let mut applies = Tri::True;
        for w in &im.wheres {
            let w = w.subst(&|i| b.get(&i).cloned().expect("impl var not in header"));
            applies = applies.and(sem.pred(hyps, &w));
        }
        match applies {
            Tri::False => continue,
            Tri::Unknown => return Norm::Unknown,
            Tri::True => {}
        }
        let val = match im.assoc_vals.iter().find(|(n, _)| n == name) {
            Some((_, v)) => v.subst(&|i| b.get(&i).cloned().expect("impl var not in header")),
            None => return Norm::Unknown,
        };
        let n = norm_ty(prog, sem, hyps, &val, fuel - 1);
        if found.is_some() {
            // coherent by construction; if two impls apply the oracle abstains
            return Norm::Unknown;
        }
        found = Some(n);
    }
    found.unwrap_or(Norm::NoImpl)
}

fn norm_ty(prog: &MProgram, sem: &mut Sem, hyps: &[MPred], t: &MTy, fuel: usize) -> Norm {
    match t {
        MTy::App(n, a) => {
            let mut args = vec![];
            for x in a {
                match norm_ty(prog, sem, hyps, x, fuel) {
                    Norm::Value(v) => args.push(v),
                    _ => return Norm::Unknown,
                }
            }
            if let Some(rest) = n.strip_prefix("@proj:") {
                let mut it = rest.split(':');
                let tr = it.next().unwrap();
                let nm = it.next().unwrap();
                match normalize(prog, sem, hyps, tr, nm, &args, fuel) {
                    Norm::Value(v) => Norm::Value(v),
                    // a projection inside a value that cannot be normalised stays opaque: oracle abstains
                    _ => Norm::Unknown,
                }
            } else {
                Norm::Value(MTy::App(n.clone(), args))
            }
        }
        other => Norm::Value(other.clone()),
    }
}

pub struct AssocGoal {
    pub text: String,
    /// exists ids in peel order
    pub exs: Vec<usize>,
    pub kind: GoalKind,
    pub hyps: Vec<MPred>,
}

pub enum GoalKind {
    /// exists<U> { Normalize(<X as Tr>::A -> U) }
    Normalize { tr: String, name: String, args: Vec<MTy> },
    /// closed X: Tr<A = Y>
    EqClosed { tr: String, name: String, args: Vec<MTy>, y: MTy },
    /// exists<U> { X: Tr<A = U> }
    EqExists { tr: String, name: String, args: Vec<MTy> },
}

pub fn gen_assoc(r: &mut Rng) -> (MProgram, Vec<AssocGoal>) {
    let mut p = MProgram::default();
    for n in ["A", "B", "C"] {
        p.structs.push(MStruct { name: n.into(), ..Default::default() });
    }
    p.structs.push(MStruct { name: "Vec".into(), nparams: 1, ..Default::default() });
    p.structs.push(MStruct { name: "Bx".into(), nparams: 1, ..Default::default() });
    p.structs.push(MStruct { name: "Pair".into(), nparams: 2, ..Default::default() });
    // a plain marker trait used in where-clauses
    p.traits.push(MTrait { name: "M0".into(), ..Default::default() });
    for c in ["A", "B"] {
        if r.chance(60) {
            p.impls.push(MImpl { head: MPred::new("M0", vec![MTy::nullary(c)]), positive: true, ..Default::default() });
        }
    }
    let ntr = 1 + r.below(2);
    for i in 0..ntr {
        p.traits.push(MTrait { name: format!("Tr{}", i), nparams: if r.chance(20) { 1 } else { 0 }, assoc: vec![format!("Out{}", i)], ..Default::default() });
    }
    let ctors: Vec<(&str, usize)> = vec![("A", 0), ("B", 0), ("C", 0), ("Vec", 1), ("Bx", 1), ("Pair", 2)];
    for ti in 0..ntr {
        let tr = p.traits[1 + ti].clone();
        let mut cs = ctors.clone();
        r.shuffle(&mut cs);
        let n_impls = 2 + r.below(4);
        for (cn, ar) in cs.into_iter().take(n_impls) {
            if ar > 0 && tr.nparams == 0 && r.chance(30) {
                // several disjoint impls on the same constructor, one of them possibly with a repeated parameter; the
                // declaration order is shuffled (an impl that does not apply may well come first)
                let a = || MTy::nullary("A");
                let b = || MTy::nullary("B");
                let mut heads: Vec<(usize, MTy)> = match cn {
                    "Pair" => vec![(1, MTy::app("Pair", vec![MTy::Var(0), MTy::Var(0)])), (0, MTy::app("Pair", vec![a(), b()])), (0, MTy::app("Pair", vec![b(), a()])), (1, MTy::app("Pair", vec![MTy::nullary("C"), MTy::app("Vec", vec![MTy::Var(0)])]))],
                    _ => vec![(0, MTy::app(cn, vec![a()])), (0, MTy::app(cn, vec![b()])), (1, MTy::app(cn, vec![MTy::app("Bx", vec![MTy::Var(0)])])), (1, MTy::app(cn, vec![MTy::app("Pair", vec![MTy::Var(0), MTy::Var(0)])])), (0, MTy::app(cn, vec![MTy::app("Pair", vec![a(), b()])]))],
                };
                r.shuffle(&mut heads);
                let keep = 2 + r.below(heads.len() - 1);
                for (nv, h) in heads.into_iter().take(keep) {
                    let val = match r.below(5) {
                        0 if nv > 0 => MTy::Var(0),
                        1 if nv > 0 => MTy::app("Vec", vec![MTy::Var(0)]),
                        2 => MTy::app("Pair", vec![MTy::nullary("A"), MTy::nullary("C")]),
                        _ => MTy::nullary(*r.pick(&["A", "B", "C"])),
                    };
                    p.impls.push(MImpl { nvars: nv, head: MPred::new(&tr.name, vec![h]), wheres: vec![], positive: true, assoc_vals: vec![(assoc_of(&tr.name), val)], ..Default::default() });
                }
                continue;
            }
            let self_ty = MTy::app(cn, (0..ar).map(MTy::Var).collect());
            let mut args = vec![self_ty];
            for _ in 0..tr.nparams {
                args.push(if ar > 0 && r.chance(40) { MTy::Var(0) } else { MTy::nullary(*r.pick(&["A", "B"])) });
            }
            // where-clauses (only on impl params): T: M0 or T: TrX
            let mut wheres = vec![];
            let mut proj_ok: Vec<(String, Vec<MTy>)> = vec![];
            for v in 0..ar {
                if r.chance(50) {
                    let tw = p.traits[1 + r.below(ntr)].clone();
                    let mut wa = vec![MTy::Var(v)];
                    for _ in 0..tw.nparams {
                        wa.push(MTy::nullary("A"));
                    }
                    proj_ok.push((tw.name.clone(), wa.clone()));
                    wheres.push(MPred::new(&tw.name, wa));
                } else if r.chance(30) {
                    wheres.push(MPred::new("M0", vec![MTy::Var(v)]));
                }
            }
            // value
            let val = match r.below(6) {
                0 if ar > 0 => MTy::Var(r.below(ar)),
                1 if ar > 0 => MTy::app("Vec", vec![MTy::Var(r.below(ar))]),
                2 | 3 if !proj_ok.is_empty() => {
                    let (tn, wa) = r.pick(&proj_ok).clone();
                    let pr = proj(&tn, &assoc_of(&tn), wa);
                    if r.chance(50) {
                        MTy::app("Bx", vec![pr])
                    } else {
                        pr
                    }
                }
                4 => MTy::app("Pair", vec![MTy::nullary("A"), MTy::nullary("C")]),
                _ => MTy::nullary(*r.pick(&["A", "B", "C"])),
            };
            p.impls.push(MImpl { nvars: ar, head: MPred::new(&tr.name, args), wheres, positive: true, assoc_vals: vec![(assoc_of(&tr.name), val)], ..Default::default() });
        }
    }
    // non-generic impls with where-clauses on concrete types (true or false in this program)
    for ti in 0..ntr {
        let tr = p.traits[1 + ti].clone();
        if tr.nparams != 0 {
            continue;
        }
        for cn in ["A", "B", "C"] {
            if r.chance(35) {
                if let Some(im) = p.impls.iter_mut().find(|im| im.head.tr == tr.name && im.nvars == 0 && im.head.args[0] == MTy::nullary(cn)) {
                    let other = *r.pick(&["A", "B", "C"]);
                    im.wheres.push(MPred::new("M0", vec![MTy::nullary(other)]));
                }
            }
        }
    }
    // associated-type bindings on closed types as extra where-clauses: their truth is fixed by the program, so an impl
    // with a true binding stays in the model (binding printed only) and one with a false binding can never apply (it is
    // printed but left out of the model). Each modification is re-verified on the resulting model and undone otherwise.
    // (at most one per program: a second one could change the truth of the first)
    for _ in 0..r.below(2) {
        if p.impls.len() < 3 {
            break;
        }
        let ii = r.below(p.impls.len());
        let im = p.impls[ii].clone();
        if im.head.tr == "M0" || im.extra_where.is_some() {
            continue;
        }
        let tj = p.traits[1 + r.below(ntr)].clone();
        if tj.nparams != 0 {
            continue;
        }
        let subj = MTy::nullary(*r.pick(&["A", "B", "C"]));
        if im.head.tr == tj.name {
            continue;
        }
        let aname = assoc_of(&tj.name);
        let truth = |q: &MProgram| -> Norm {
            let mut sem = Sem::new(q, 10);
            normalize(q, &mut sem, &[], &tj.name, &aname, &[subj.clone()], 6)
        };
        let want_true = r.chance(50);
        let now = truth(&p);
        let mut q = p.clone();
        let rhs: MTy = match (&now, want_true) {
            (Norm::Value(v), true) => v.clone(),
            (Norm::Unknown, _) => continue,
            _ => {
                // a closed type different from the actual value (or any, when there is no value at all)
                let cands = [MTy::nullary("A"), MTy::nullary("B"), MTy::app("Vec", vec![MTy::nullary("C")]), MTy::app("Pair", vec![MTy::nullary("A"), MTy::nullary("C")])];
                match cands.iter().find(|c| !matches!(&now, Norm::Value(v) if v == *c)) {
                    Some(c) => c.clone(),
                    None => continue,
                }
            }
        };
        let binding = format!("{}: {}<{} = {}>", ty_text(&subj), tj.name, aname, ty_text(&rhs));
        let holds_now = matches!(&now, Norm::Value(v) if *v == rhs);
        if holds_now {
            q.impls[ii].extra_where = Some(binding);
        } else {
            let mut dead = im.clone();
            dead.extra_where = Some(binding);
            q.extra_items.push(impl_text(&dead));
            q.impls.remove(ii);
        }
        // re-verify on the modified model
        let after = truth(&q);
        let holds_after = matches!(&after, Norm::Value(v) if *v == rhs);
        let decided = !matches!(after, Norm::Unknown);
        if decided && holds_after == holds_now {
            p = q;
        }
    }
    // goals
    let mut goals = vec![];
    let ground = |r: &mut Rng, depth: usize, leaves: &[MTy]| -> MTy {
        fn go(r: &mut Rng, depth: usize, leaves: &[MTy]) -> MTy {
            if depth == 0 || r.chance(45) {
                if !leaves.is_empty() && r.chance(40) {
                    return r.pick(leaves).clone();
                }
                return MTy::nullary(*r.pick(&["A", "B", "C"]));
            }
            match r.below(3) {
                0 => MTy::app("Vec", vec![go(r, depth - 1, leaves)]),
                1 => MTy::app("Bx", vec![go(r, depth - 1, leaves)]),
                _ => MTy::app("Pair", vec![go(r, depth - 1, leaves), go(r, depth - 1, leaves)]),
            }
        }
        go(r, depth, leaves)
    };
    for gi in 0..10 {
        let tr = p.traits[1 + r.below(ntr)].clone();
        let with_forall = gi % 3 == 2;
        let leaves: Vec<MTy> = if with_forall { vec![MTy::Ph(1, 0)] } else { vec![] };
        let mut x = ground(r, 2, &leaves);
        if with_forall && matches!(x, MTy::Ph(..)) {
            x = MTy::app("Vec", vec![x]);
        }
        if with_forall && r.chance(60) {
            // the placeholder two constructors deep: the value of the outer impl then mentions a projection on a type
            // that contains the placeholder
            let c1 = *r.pick(&["Vec", "Bx"]);
            let c2 = *r.pick(&["Vec", "Bx"]);
            x = MTy::app(c1, vec![MTy::app(c2, vec![MTy::Ph(1, 0)])]);
        }
        let mut args = vec![x];
        for _ in 0..tr.nparams {
            args.push(MTy::nullary(*r.pick(&["A", "B"])));
        }
        let hyps: Vec<MPred> = if with_forall {
            let th = p.traits[r.below(p.traits.len())].clone();
            let mut ha = vec![MTy::Ph(1, 0)];
            for _ in 0..th.nparams {
                ha.push(MTy::nullary("A"));
            }
            // hypotheses about a bare placeholder for a trait with an associated type would make <P as Tr>::A a
            // placeholder projection inside values; keep only the marker trait here so values stay concrete
            if th.assoc.is_empty() {
                vec![MPred::new(&th.name, ha)]
            } else {
                vec![]
            }
        } else {
            vec![]
        };
        let an = assoc_of(&tr.name);
        let p_text = ty_text(&proj(&tr.name, &an, args.clone()));
        let wrap = |body: String, exists: bool| -> String {
            let inner = if exists { format!("exists<V0> {{ {} }}", body) } else { body };
            let inner = if hyps.is_empty() { inner } else { format!("if ({}) {{ {} }}", hyps.iter().map(pred_text).collect::<Vec<_>>().join("; "), inner) };
            if with_forall {
                format!("forall<P1_0> {{ {} }}", inner)
            } else {
                inner
            }
        };
        let targs = if args.len() > 1 { format!("{}, ", args[1..].iter().map(ty_text).collect::<Vec<_>>().join(", ")) } else { String::new() };
        match gi % 3 {
            0 | 2 => goals.push(AssocGoal { text: wrap(format!("Normalize({} -> V0)", p_text), true), exs: vec![0], kind: GoalKind::Normalize { tr: tr.name.clone(), name: an.clone(), args: args.clone() }, hyps: hyps.clone() }),
            _ => {
                if r.chance(50) {
                    goals.push(AssocGoal { text: wrap(format!("{}: {}<{}{} = V0>", ty_text(&args[0]), tr.name, targs, an), true), exs: vec![0], kind: GoalKind::EqExists { tr: tr.name.clone(), name: an.clone(), args: args.clone() }, hyps: hyps.clone() });
                } else {
                    let y = ground(r, 1, &leaves);
                    goals.push(AssocGoal { text: wrap(format!("{}: {}<{}{} = {}>", ty_text(&args[0]), tr.name, targs, an, ty_text(&y)), false), exs: vec![], kind: GoalKind::EqClosed { tr: tr.name.clone(), name: an.clone(), args: args.clone(), y }, hyps: hyps.clone() });
                }
            }
        }
    }
    (p, goals)
}

pub fn gen_assoc_case(r: &mut Rng) -> (MProgram, Vec<String>) {
    let (p, gs) = gen_assoc(r);
    (p, gs.into_iter().map(|g| g.text).collect())
}

pub fn run(ctx: &Ctx, out: &mut CaseOut) {
    let mut r = Rng::for_case(ctx.prop, ctx.seed, ctx.k);
    let (prog, goals) = gen_assoc(&mut r);
    let text = program_text(&prog);
    let mut sem = Sem::new(&prog, 10);
    let expected: Vec<Norm> = goals
        .iter()
        .map(|g| match &g.kind {
            GoalKind::Normalize { tr, name, args } | GoalKind::EqClosed { tr, name, args, .. } | GoalKind::EqExists { tr, name, args } => normalize(&prog, &mut sem, &g.hyps, tr, name, args, 6),
        })
        .collect();
    out.sample = Some(J::obj().set("program", text.as_str()).set("goals", J::Arr(goals.iter().zip(&expected).take(4).map(|(g, e)| J::Str(format!("{} => oracle {:?}", g.text, e))).collect())));
    for choice in both() {
        let l = match load(&text, choice, false) {
            Ok(l) => l,
            Err(e) => {
                out.inconclusive(&format!("generated program failed to lower: {}", crate::case::truncate(&e, 100)));
                return;
            }
        };
        with_program(&l, || {
            for (g, exp) in goals.iter().zip(&expected) {
                let p = match lower_and_peel(&l, &g.text, &g.exs) {
                    Ok(p) => p,
                    Err(e) => {
                        out.inconclusive(&format!("goal failed to lower: {}", crate::case::truncate(&e, 80)));
                        continue;
                    }
                };
                let rec = solve_translated(&l, choice, &p, 400_000);
                out.evals += 1;
                let kind_name = match &g.kind {
                    GoalKind::Normalize { .. } => "normalize",
                    GoalKind::EqClosed { .. } => "eq-closed",
                    GoalKind::EqExists { .. } => "eq-exists",
                };
                let shown = rec.shown.clone();
                let ans = match &rec.ans {
                    Ok(a) => a.clone(),
                    Err(e) => {
                        if matches!(rec.outcome, Outcome::Answer(_)) {
                            // answer mentions a type outside the model's vocabulary (e.g. a placeholder projection)
                            out.count(&format!("untranslatable-answer:{}", kind_name));
                            if let (GoalKind::Normalize { .. }, Norm::Value(v)) = (&g.kind, exp) {
                                if matches!(rec.outcome, Outcome::Answer(Some(chalk_solve::Solution::Unique(_)))) {
                                    out.violation(None, format!("{} normalised to an untranslatable type ({}) but the applicable impl's value is {}", solver_name(&choice), e, ty_text(v)), detail(&text, &g.text, &choice).set("answer", shown.as_str()));
                                }
                            }
                        } else {
                            note_non_answer(out, &rec);
                        }
                        continue;
                    }
                };
                out.count(&format!("answer:{}:{}:{}", solver_name(&choice), kind_name, ans.kind()));
                let d = || detail(&text, &g.text, &choice).set("answer", shown.as_str()).set("oracle", format!("{:?}", exp));
                match (&g.kind, exp) {
                    (_, Norm::Unknown) => out.count("oracle-abstains"),
                    (GoalKind::Normalize { .. }, Norm::Value(v)) => match &ans {
                        MAnswer::Unique(m, us) if us.is_empty() && m.get(&0) == Some(v) => {
                            out.count("nontrivial:normalize-to-value");
                            out.nt(&format!("{}|{}|{}", text, g.text, solver_name(&choice)));
                        }
                        // definite guidance must not exclude the value
                        MAnswer::Definite(m, _) if m.get(&0).map_or(true, |pat| match_ty(pat, v, &mut Default::default())) => {
                            out.count("definite-guidance-generalises-the-value");
                        }
                        MAnswer::Unique(..) | MAnswer::None | MAnswer::Definite(..) => {
                            out.violation(None, format!("{} answered `{}` but the applicable impl's (normalised) value is {}", solver_name(&choice), shown, ty_text(v)), d());
                        }
                        _ => out.count("ambiguous-on-normalize(not refutable by the statement)"),
                    },
                    (GoalKind::Normalize { .. }, Norm::NoImpl) => match &ans {
                        MAnswer::None => {
                            out.count("nontrivial:normalize-no-impl");
                            out.nt(&format!("{}|{}|{}", text, g.text, solver_name(&choice)));
                        }
                        MAnswer::Unique(..) | MAnswer::Definite(..) => {
                            out.violation(None, format!("{} answered `{}` but no impl applies", solver_name(&choice), shown), d());
                        }
                        _ => out.count("ambiguous-on-normalize(not refutable by the statement)"),
                    },
                    (GoalKind::EqClosed { y, .. }, Norm::Value(v)) => {
                        if y != v && matches!(ans, MAnswer::Unique(..)) {
                            out.violation(None, format!("{} accepted `{}` although the value is {}", solver_name(&choice), g.text, ty_text(v)), d());
                        } else {
                            out.count(if y == v { "nontrivial:eq-closed-right-type" } else { "nontrivial:eq-closed-wrong-type-rejected" });
                            out.nt(&format!("{}|{}|{}", text, g.text, solver_name(&choice)));
                        }
                    }
                    (GoalKind::EqClosed { .. }, Norm::NoImpl) => out.count("eq-closed-no-impl(not judged)"),
                    (GoalKind::EqExists { .. }, Norm::Value(v)) => match &ans {
                        MAnswer::Unique(m, _) | MAnswer::Definite(m, _) => {
                            if m.get(&0) != Some(v) && !matches!(m.get(&0), Some(MTy::Var(_))) {
                                out.violation(None, format!("{} answered `{}` but the applicable impl's value is {}", solver_name(&choice), shown, ty_text(v)), d());
                            } else {
                                out.count("nontrivial:eq-exists-value");
                                out.nt(&format!("{}|{}|{}", text, g.text, solver_name(&choice)));
                            }
                        }
                        MAnswer::None => {
                            out.violation(None, format!("{} answered `{}` but an impl applies with value {}", solver_name(&choice), shown, ty_text(v)), d());
                        }
                        _ => out.count("ambiguous-on-eq-exists(chalk#234, not a violation of the statement)"),
                    },
                    (GoalKind::EqExists { .. }, Norm::NoImpl) => out.count("eq-exists-no-impl(not judged)"),
                }
            }
        });
    }
}
