//! C18 – clause pre-filtering (`could_match`, `impls_for_trait`) never discards an applicable clause.
use crate::case::{CaseOut, Ctx, Tier};
use crate::drive::*;
use crate::irfull::*;
use crate::json::J;
use crate::props::workload::workload;
use crate::rng::Rng;
use chalk_integration::interner::ChalkIr;
use chalk_ir::could_match::CouldMatch;
use chalk_ir::fold::Subst;
use chalk_ir::*;
use chalk_solve::infer::InferenceTable;
use std::panic::{catch_unwind, AssertUnwindSafe};

pub fn cases(t: Tier) -> u64 {
    match t {
        Tier::Quick => 2000,
        Tier::Thorough => 40000,
    }
}

#[derive(Debug)]
struct Db;
impl UnificationDatabase<I> for Db {
    fn fn_def_variance(&self, id: FnDefId<I>) -> Variances<I> {
        // variance-carrying fn defs
        let v = [Variance::Covariant, Variance::Contravariant, Variance::Invariant];
        Variances::from_iter(ChalkIr, (0..4).map(|k| v[(id.0.index as usize + k) % 3]))
    }
    fn adt_variance(&self, id: AdtId<I>) -> Variances<I> {
        let v = [Variance::Invariant, Variance::Covariant, Variance::Contravariant];
        Variances::from_iter(ChalkIr, (0..4).map(|k| v[(id.0.index as usize + k) % 3]))
    }
}

const KINDS: [VK; 6] = [VK::Ty, VK::Ty, VK::Ty, VK::Lt, VK::Lt, VK::Ct];

/// A variant of `t`: some sub-terms replaced by wildcards (bound variables) or other terms.
fn vary(r: &mut Rng, t: &ITy, d: usize) -> ITy {
    if r.chance(18) {
        return ITy::Bound(0, r.below(3));
    }
    if r.chance(6) {
        let mut c = GenCtx { scopes: vec![KINDS.to_vec()], free_levels: 0, allow_infer: false };
        return gen_ty(r, &mut c, 1);
    }
    let va = |r: &mut Rng, a: &Vec<IArg>| -> Vec<IArg> {
        a.iter()
            .map(|x| match x {
                IArg::Ty(t) => IArg::Ty(vary(r, t, d + 1)),
                // lifetimes never make unification fail: any other lifetime keeps the pair unifiable
                IArg::Lt(l) => IArg::Lt(if r.chance(30) { ILt::Bound(0, 3 + r.below(2)) } else if r.chance(40) { other_lt(r) } else { l.clone() }),
                IArg::Ct(c) => IArg::Ct(if r.chance(30) { ICt::Bound(0, 5) } else { c.clone() }),
            })
            .collect()
    };
    match t {
        ITy::Adt(id, a) => ITy::Adt(*id, va(r, a)),
        ITy::Assoc(id, a) => ITy::Assoc(*id, va(r, a)),
        ITy::Tuple(a) => ITy::Tuple(va(r, a)),
        ITy::Array(x, c) => ITy::Array(Box::new(vary(r, x, d + 1)), if r.chance(30) { ICt::Bound(0, 5) } else { c.clone() }),
        ITy::Slice(x) => ITy::Slice(Box::new(vary(r, x, d + 1))),
        ITy::Raw(m, x) => ITy::Raw(*m, Box::new(vary(r, x, d + 1))),
        ITy::Ref(m, l, x) => ITy::Ref(*m, if r.chance(30) { ILt::Bound(0, 3) } else if r.chance(50) { other_lt(r) } else { l.clone() }, Box::new(vary(r, x, d + 1))),
        ITy::OpaqueTy(id, a) => ITy::OpaqueTy(*id, va(r, a)),
        ITy::FnDef(id, a) => ITy::FnDef(*id, va(r, a)),
        ITy::Closure(id, a) => ITy::Closure(*id, va(r, a)),
        ITy::Fn(n, a) => ITy::Fn(*n, a.clone()),
        o => o.clone(),
    }
}

fn other_lt(r: &mut Rng) -> ILt {
    match r.below(4) {
        0 => ILt::Static,
        1 => ILt::Erased,
        _ => ILt::Ph(r.below(3), r.below(3)),
    }
}

fn fresh_params(table: &mut InferenceTable<I>) -> Vec<GenericArg<I>> {
    use chalk_ir::cast::Cast;
    let i = ChalkIr;
    KINDS
        .iter()
        .map(|k| {
            let v = table.new_variable(UniverseIndex::root());
            match k {
                VK::Ty => v.to_ty(i).cast(i),
                VK::Lt => v.to_lifetime(i).cast(i),
                VK::Ct => v.to_const(i, TyKind::Scalar(Scalar::Uint(UintTy::Usize)).intern(i)).cast(i),
            }
        })
        .collect()
}

pub fn run(ctx: &Ctx, out: &mut CaseOut) {
    let mut r = Rng::for_case(ctx.prop, ctx.seed, ctx.k);
    let i = ChalkIr;
    if ctx.k % 10 == 9 {
        runtime_filter(ctx, &mut r, out);
        return;
    }
    for _ in 0..20 {
        let mut c = GenCtx { scopes: vec![KINDS.to_vec()], free_levels: 0, allow_infer: false };
        let depth = 1 + r.below(3);
        let a = gen_ty(&mut r, &mut c, depth);
        let b = if r.chance(75) { vary(&mut r, &a, 0) } else { gen_ty(&mut r, &mut c, depth) };
        let (ca, cb) = (ty_c(&a), ty_c(&b));
        // pose the pair at three levels: types, trait-reference argument lists, domain goals
        let level = r.below(3);
        let extra_a = gen_ty(&mut r, &mut c, 1);
        let extra_b = if r.chance(70) { vary(&mut r, &extra_a, 0) } else { gen_ty(&mut r, &mut c, 1) };
        let args_a = vec![IArg::Ty(a.clone()), IArg::Ty(extra_a.clone())];
        let args_b = vec![IArg::Ty(b.clone()), IArg::Ty(extra_b.clone())];
        let tid = r.below(2) as u32;
        let dg_a = DomainGoal::Holds(wc_c(&IWc::Implemented(tid, args_a.clone())));
        let dg_b = DomainGoal::Holds(wc_c(&IWc::Implemented(if r.chance(85) { tid } else { 1 - tid }, args_b.clone())));
        let cm = catch_unwind(AssertUnwindSafe(|| match level {
            0 => ca.could_match(i, &Db, &cb),
            1 => subst_c(&args_a).as_slice(i).could_match(i, &Db, subst_c(&args_b).as_slice(i)),
            _ => dg_a.could_match(i, &Db, &dg_b),
        }));
        let cm = match cm {
            Ok(x) => x,
            Err(e) => {
                out.violation(None, format!("could_match panicked: {}", crate::case::panic_msg(&e)), J::obj().set("a", format!("{:?}", ca)).set("b", format!("{:?}", cb)));
                return;
            }
        };
        out.evals += 1;
        // oracle: real unification after replacing the wildcards of each side by fresh unknowns
        let mut table: InferenceTable<I> = InferenceTable::new();
        for _ in 0..5 {
            table.new_universe();
        }
        let pa = fresh_params(&mut table);
        let pb = fresh_params(&mut table);
        let env = Environment::new(i);
        let unifies = catch_unwind(AssertUnwindSafe(|| match level {
            0 => table.relate(i, &Db, &env, Variance::Invariant, &Subst::apply(i, &pa, ca.clone()), &Subst::apply(i, &pb, cb.clone())).is_ok(),
            1 => {
                let sa = Subst::apply(i, &pa, subst_c(&args_a));
                let sb = Subst::apply(i, &pb, subst_c(&args_b));
                sa.iter(i).zip(sb.iter(i)).all(|(x, y)| table.relate(i, &Db, &env, Variance::Invariant, x, y).is_ok())
            }
            _ => table.relate(i, &Db, &env, Variance::Invariant, &Subst::apply(i, &pa, dg_a.clone()), &Subst::apply(i, &pb, dg_b.clone())).is_ok(),
        }));
        let unifies = match unifies {
            Ok(u) => u,
            Err(_) => {
                out.inconclusive("oracle unification panicked");
                continue;
            }
        };
        let lvl = ["types", "argument-lists", "domain-goals"][level];
        if unifies && !cm {
            out.violation(
                None,
                format!("could_match rejected a pair of {} that unifies", lvl),
                J::obj().set("level", lvl).set("a", format!("{:?}", if level == 0 { format!("{:?}", ca) } else { format!("{:?}", dg_a) })).set("b", format!("{:?}", if level == 0 { format!("{:?}", cb) } else { format!("{:?}", dg_b) })),
            );
            return;
        }
        out.count(&format!("{}:unifies={}:could_match={}", lvl, unifies, cm));
        if unifies {
            out.count(&format!("head:{}", head_name(&a)));
            out.nt(&format!("{}|{:?}|{:?}", level, a, b));
        } else if !cm {
            out.count("filtered-and-indeed-not-unifiable");
        }
        if out.sample.is_none() && unifies {
            out.sample = Some(J::obj().set("a", format!("{:?}", ca)).set("b", format!("{:?}", cb)).set("unifies", unifies).set("could_match", cm));
        }
    }
}

/// Run-time monitor: inside real solves, every impl that `impls_for_trait` leaves out must fail to unify with the query.
fn runtime_filter(ctx: &Ctx, r: &mut Rng, out: &mut CaseOut) {
    let mut w = workload(r, ctx.k / 10, 2, 8);
    // some impls come from "upstream" crates: they are filtered like any other impl
    if w.fragment == "basic" || w.fragment == "basic-growing" {
        for im in w.prog.impls.iter_mut() {
            if r.chance(35) {
                im.upstream = true;
            }
        }
        w.text = crate::model::program_text(&w.prog);
    }
    for choice in both() {
        let l = match load(&w.text, choice, false) {
            Ok(l) => l,
            Err(_) => return,
        };
        with_program(&l, || {
            for (g, e, _) in &w.goals {
                let p = match lower_and_peel(&l, g, e) {
                    Ok(p) => p,
                    Err(_) => continue,
                };
                let mut db = FaultDb::new(&*l.program, solver_name(&choice));
                db.check_filter = true;
                db.all_impls = l.program.impl_data.iter().map(|(id, d)| (*id, d.trait_id())).collect();
                db.budget.set(300_000);
                let mut s = choice.into_solver();
                let _ = solve(&mut *s, &db, &p.goal);
                out.evals += 1;
                out.add("runtime:impls-left-out-by-impls_for_trait-and-checked", db.filter_checked.get());
                if db.filter_checked.get() > 0 {
                    out.nt(&format!("{}|{}|{}", w.text, g, solver_name(&choice)));
                }
                let first: Option<String> = db.filter_violations.borrow().first().cloned();
                if let Some(v) = first {
                    out.violation(None, v.clone(), J::obj().set("program", w.text.as_str()).set("goal", g.as_str()).set("solver", solver_desc(&choice)));
                    return;
                }
            }
        });
    }
}
