//! C09 – every solve call terminates: bounded work (database callbacks), no panic, no process death.
use crate::case::{CaseOut, Ctx, Tier};
use crate::common::*;
use crate::drive::*;
use crate::json::J;
use crate::props::workload::workload;
use crate::rng::Rng;
use chalk_integration::SolverChoice;
use std::panic::{catch_unwind, AssertUnwindSafe};

pub fn cases(t: Tier) -> u64 {
    match t {
        Tier::Quick => 400,
        Tier::Thorough => 6000,
    }
}

/// Work bound per solve, in database callbacks.
pub const B: u64 = 300_000;
fn bound() -> u64 {
    std::env::var("VERIF_C09_BOUND").ok().and_then(|s| s.parse().ok()).unwrap_or(B)
}

/// The reference derivation of the goal leaves the model's size bound: the program makes types grow along the derivation.
fn derivation_grows(prog: &crate::model::MProgram, g: &crate::model::MGoal) -> bool {
    let mut phs = vec![];
    crate::model::collect_phs(g, &mut phs);
    let uni = crate::model::build_universe(prog, &phs, 2);
    let mut sem = crate::model::Sem::new(prog, 12);
    let _ = sem.eval(&uni, &mut vec![], g, &Default::default());
    !sem.last_clean
}

pub fn run(ctx: &Ctx, out: &mut CaseOut) {
    let mut r = Rng::for_case(ctx.prop, ctx.seed, ctx.k);
    // every tenth case: the lifetime fragment (region constraints in answers; text only, no oracle needed here)
    let w = if ctx.k % 10 == 9 { crate::props::workload::lifetime_work(&mut r, 8) } else { workload(&mut r, ctx.k, 2, 8) };
    let configs: Vec<SolverChoice> = vec![
        slg(),
        rec(),
        SolverChoice::slg(4, None),
        SolverChoice::Recursive { overflow_depth: 100, caching_enabled: false, max_size: 8 },
    ];
    // auto fragment: also every struct x auto trait (dense field cycles are where SLG's delayed answers multiply, F32)
    let mut w = w;
    if w.fragment == "auto" {
        let mut extra = vec![];
        for tr in w.prog.traits.iter().filter(|t| t.auto) {
            for st in w.prog.structs.iter().filter(|s| s.nparams == 0).take(6) {
                extra.push((format!("{}: {}", st.name, tr.name), vec![], None));
            }
        }
        w.goals.extend(extra);
    }
    out.sample = Some(J::obj().set("fragment", w.fragment).set("program", w.text.as_str()).set("goal", w.goals.get(0).map(|g| g.0.clone()).unwrap_or_default()));
    for (ci, choice) in configs.iter().enumerate() {
        if ci >= 2 && ctx.k % 2 == 1 {
            continue;
        }
        let l = match load(&w.text, *choice, false) {
            Ok(l) => l,
            Err(_) => {
                out.inconclusive("generated program failed to lower");
                return;
            }
        };
        with_program(&l, || {
            for (gi, (gtext, exs, mgoal)) in w.goals.iter().enumerate() {
                let p = match lower_and_peel(&l, gtext, exs) {
                    Ok(p) => p,
                    Err(_) => {
                        out.count("goal-did-not-lower(skipped)");
                        continue;
                    }
                };
                // the recursive solver documents solve_multiple as unimplemented
                let entry = (gi + ctx.k as usize) % if solver_name(choice) == "slg" { 3 } else { 2 };
                let db = FaultDb::new(&*l.program, solver_name(choice));
                // database callbacks of the recursive solver are about a microsecond each, and with caching disabled it
                // legitimately repeats sub-searches (a truncated polymorphic recursion was measured at 4.2*10^5): its bound is
                // larger so that "bounded but repetitive" is not mistaken for divergence
                let work_bound = if solver_name(choice) == "recursive" { bound() * 20 } else { bound() };
                db.budget.set(work_bound);
                // SLG blow-ups (F16, F32) make only a few hundred callbacks per second; they are recognised by what the forest
                // looks like (hook H4), not by the callback count, so a shorter guard suffices there
                db.time_limit.set(std::time::Duration::from_secs(if solver_name(choice) == "slg" { 12 } else { 40 }));
                // SLG through the concrete type so that hook H4 can show what the forest looked like when the work bound hit
                let mut slg_s = match choice {
                    SolverChoice::SLG { max_size, expected_answers } => Some(chalk_engine::solve::SLGSolver::<I>::new(*max_size, *expected_answers)),
                    _ => None,
                };
                let mut other = choice.into_solver();
                let s: &mut dyn chalk_solve::Solver<I> = match slg_s.as_mut() {
                    Some(x) => x,
                    None => &mut *other,
                };
                let outcome = match entry {
                    0 => solve(&mut *s, &db, &p.goal),
                    1 => solve_limited(&mut *s, &db, &p.goal, &|| true),
                    _ => {
                        let mut n = 0;
                        db.arm();
                        match catch_unwind(AssertUnwindSafe(|| {
                            s.solve_multiple(&db, &p.goal, &mut |_, _| {
                                n += 1;
                                n < 50
                            })
                        })) {
                            Ok(_) => Outcome::Answer(None),
                            Err(e) => classify_unwind(e),
                        }
                    }
                };
                out.evals += 1;
                let calls = db.calls.get();
                out.gauge("max_callbacks_in_one_solve", calls);
                let entry_name = ["solve", "solve_limited", "solve_multiple"][entry];
                let flag = db.nonground_coinductive.get();
                let d = || detail(&w.text, gtext, choice).set("entry_point", entry_name).set("callbacks", calls).set("fragment", w.fragment).set("nonground_coinductive_subgoal_posed", flag);
                match &outcome {
                    Outcome::Answer(_) => {
                        out.count(&format!("returned:{}:{}:{}", solver_name(choice), entry_name, w.fragment));
                        let bucket = if calls < 100 { "<100" } else if calls < 1000 { "<1e3" } else if calls < 10_000 { "<1e4" } else if calls < 100_000 { "<1e5" } else { ">=1e5" };
                        out.count(&format!("callbacks:{}", bucket));
                        if calls >= 50 {
                            out.nt(&format!("{}|{}|{}|{}", w.text, gtext, solver_desc(choice), entry_name));
                        }
                    }
                    Outcome::Panic(m) => {
                        if solver_name(choice) == "recursive" && m.contains("overflow depth reached") {
                            out.count("exempt:recursive-overflow-depth-panic");
                            continue;
                        }
                        let sig = panic_signature(solver_name(choice), m, mgoal.as_ref(), Some(&w.prog));
                        out.violation(sig.as_deref(), format!("{} {} panicked: {} at {}", solver_desc(choice), entry_name, crate::case::truncate(m, 160), last_panic_loc()), d().set("panic", m.as_str()));
                    }
                    Outcome::Budget => {
                        // F32's root-cause condition (hook H4): one table holds several answers that all still carry delayed
                        // subgoals — for a table goal without unknowns these can only differ in what they are conditional on
                        let multiplied = slg_s.as_mut().map_or(false, |x| x.verif_tables().iter().any(|t| t.answers_with_delayed_subgoals >= 4));
                        if db.timed_out.get() && calls < 20_000 && !flag && !multiplied {
                            // the wall-clock guard fired with little logical work done and none of the known blow-up conditions
                            // is visible: a loaded machine, not a verdict
                            out.inconclusive("wall-clock guard fired below the work threshold");
                            continue;
                        }
                        let sig = if flag {
                            Some(if solver_name(choice) == "slg" { "slg:coinductive-nonground:blowup" } else { "recursive:coinductive-nonground:divergence" })
                        } else if multiplied {
                            Some("slg:coinductive-delayed-answers-multiply")
                        } else if solver_name(choice) == "recursive" && mgoal.as_ref().map_or(false, |g| derivation_grows(&w.prog, g)) {
                            // F40: types grow along the derivation (polymorphic recursion through fields); the search is only cut
                            // by max_size and branches at every level
                            Some("recursive:polymorphic-recursion-exponential-in-max-size")
                        } else {
                            None
                        };
                        let known_blowup = sig.is_some();
                        out.violation(sig, format!("{} {} did not return within the work bound ({} database callbacks made, bound {}; wall-clock guard fired: {})", solver_desc(choice), entry_name, calls, work_bound, db.timed_out.get()), d());
                        if known_blowup {
                            // every further blow-up of the same kind costs the full guard time; the class has been observed
                            out.count("remaining-goals-of-this-configuration-skipped-after-a-known-blow-up");
                            break;
                        }
                    }
                    Outcome::Injected => {}
                }
            }
        });
    }
}
