//! C09 – every solve call terminates: bounded work (database callbacks), no panic, no process death.
use crate::case::{CaseOut, Ctx, Tier};
use crate::common::*;
use crate::drive::*;
use crate::json::J;
use crate::props::workload::workload;
use crate::rng::Rng;
use chalk_integration::SolverChoice;
use std::panic::{catch_unwind, AssertUnwindSafe};

pub fn cases(t: Tier) -> u64 {
    match t {
        Tier::Quick => 400,
        Tier::Thorough => 6000,
    }
}

/// Work bound per solve, in database callbacks.
pub const B: u64 = 300_000;

pub fn run(ctx: &Ctx, out: &mut CaseOut) {
    let mut r = Rng::for_case(ctx.prop, ctx.seed, ctx.k);
    let w = workload(&mut r, ctx.k, 2, 8);
    let configs: Vec<SolverChoice> = vec![
        slg(),
        rec(),
        SolverChoice::slg(4, None),
        SolverChoice::Recursive { overflow_depth: 100, caching_enabled: false, max_size: 8 },
    ];
    out.sample = Some(J::obj().set("fragment", w.fragment).set("program", w.text.as_str()).set("goal", w.goals.get(0).map(|g| g.0.clone()).unwrap_or_default()));
    for (ci, choice) in configs.iter().enumerate() {
        if ci >= 2 && ctx.k % 2 == 1 {
            continue;
        }
        let l = match load(&w.text, *choice, false) {
            Ok(l) => l,
            Err(_) => {
                out.inconclusive("generated program failed to lower");
                return;
            }
        };
        with_program(&l, || {
            for (gi, (gtext, exs, mgoal)) in w.goals.iter().enumerate() {
                let p = match lower_and_peel(&l, gtext, exs) {
                    Ok(p) => p,
                    Err(_) => {
                        out.count("goal-did-not-lower(skipped)");
                        continue;
                    }
                };
                // the recursive solver documents solve_multiple as unimplemented
                let entry = (gi + ctx.k as usize) % if solver_name(choice) == "slg" { 3 } else { 2 };
                let db = FaultDb::new(&*l.program, solver_name(choice));
                db.budget.set(B);
                db.time_limit.set(std::time::Duration::from_secs(40));
                let mut s = choice.into_solver();
                let outcome = match entry {
                    0 => solve(&mut *s, &db, &p.goal),
                    1 => solve_limited(&mut *s, &db, &p.goal, &|| true),
                    _ => {
                        let mut n = 0;
                        db.arm();
                        match catch_unwind(AssertUnwindSafe(|| {
                            s.solve_multiple(&db, &p.goal, &mut |_, _| {
                                n += 1;
                                n < 50
                            })
                        })) {
                            Ok(_) => Outcome::Answer(None),
                            Err(e) => classify_unwind(e),
                        }
                    }
                };
                out.evals += 1;
                let calls = db.calls.get();
                out.gauge("max_callbacks_in_one_solve", calls);
                let entry_name = ["solve", "solve_limited", "solve_multiple"][entry];
                let flag = db.nonground_coinductive.get();
                let d = || detail(&w.text, gtext, choice).set("entry_point", entry_name).set("callbacks", calls).set("fragment", w.fragment).set("nonground_coinductive_subgoal_posed", flag);
                match &outcome {
                    Outcome::Answer(_) => {
                        out.count(&format!("returned:{}:{}:{}", solver_name(choice), entry_name, w.fragment));
                        let bucket = if calls < 100 { "<100" } else if calls < 1000 { "<1e3" } else if calls < 10_000 { "<1e4" } else if calls < 100_000 { "<1e5" } else { ">=1e5" };
                        out.count(&format!("callbacks:{}", bucket));
                        if calls >= 50 {
                            out.nt(&format!("{}|{}|{}|{}", w.text, gtext, solver_desc(choice), entry_name));
                        }
                    }
                    Outcome::Panic(m) => {
                        if solver_name(choice) == "recursive" && m.contains("overflow depth reached") {
                            out.count("exempt:recursive-overflow-depth-panic");
                            continue;
                        }
                        let sig = panic_signature(solver_name(choice), m, mgoal.as_ref(), Some(&w.prog));
                        out.violation(sig.as_deref(), format!("{} {} panicked: {} at {}", solver_desc(choice), entry_name, crate::case::truncate(m, 160), last_panic_loc()), d().set("panic", m.as_str()));
                    }
                    Outcome::Budget if db.timed_out.get() && calls < 20_000 => {
                        // the wall-clock guard fired with little logical work done: a loaded machine, not a verdict
                        out.inconclusive("wall-clock guard fired below the work threshold");
                    }
                    Outcome::Budget => {
                        let sig = if flag {
                            Some(if solver_name(choice) == "slg" { "slg:coinductive-nonground:blowup" } else { "recursive:coinductive-nonground:divergence" })
                        } else {
                            None
                        };
                        out.violation(sig, format!("{} {} did not return within the work bound ({} database callbacks made, bound {}; 40 s guard fired: {})", solver_desc(choice), entry_name, calls, B, db.timed_out.get()), d());
                    }
                    Outcome::Injected => {}
                }
            }
        });
    }
}
