//! C24 – parsing and lowering never crash: any input text gives Ok or Err, never a panic.
use crate::case::{CaseOut, Ctx, Tier};
use crate::corpus;
use crate::drive::*;
use crate::json::J;
use crate::props::workload::workload;
use crate::rng::Rng;
use chalk_integration::db::ChalkDatabase;
use chalk_integration::query::LoweringDatabase;
use std::panic::{catch_unwind, AssertUnwindSafe};

pub fn cases(t: Tier) -> u64 {
    match t {
        Tier::Quick => 1600,
        Tier::Thorough => 40000,
    }
}

thread_local! {
    static CORPUS: Vec<corpus::CorpusEntry> = corpus::load_corpus();
    static VOCAB: Vec<String> = build_vocab();
}

pub fn tokenize(s: &str) -> Vec<String> {
    let mut out = vec![];
    let cs: Vec<char> = s.chars().collect();
    let mut i = 0;
    while i < cs.len() {
        let c = cs[i];
        if c.is_whitespace() {
            i += 1;
        } else if c.is_alphanumeric() || c == '_' {
            let mut j = i;
            while j < cs.len() && (cs[j].is_alphanumeric() || cs[j] == '_') {
                j += 1;
            }
            out.push(cs[i..j].iter().collect());
            i = j;
        } else if c == '\'' {
            let mut j = i + 1;
            while j < cs.len() && (cs[j].is_alphanumeric() || cs[j] == '_') {
                j += 1;
            }
            out.push(cs[i..j].iter().collect());
            i = j;
        } else if c == '-' && i + 1 < cs.len() && cs[i + 1] == '>' {
            out.push("->".into());
            i += 2;
        } else if c == ':' && i + 1 < cs.len() && cs[i + 1] == ':' {
            out.push("::".into());
            i += 2;
        } else {
            out.push(c.to_string());
            i += 1;
        }
    }
    out
}

fn build_vocab() -> Vec<String> {
    let mut set = std::collections::BTreeSet::new();
    CORPUS.with(|c| {
        for e in c.iter() {
            for t in tokenize(&e.program) {
                set.insert(t);
            }
            for g in &e.goals {
                for t in tokenize(g) {
                    set.insert(t);
                }
            }
        }
    });
    for t in [
        "struct", "enum", "trait", "impl", "for", "where", "type", "fn", "forall", "exists", "if", "not", "compatible", "dyn", "opaque", "closure", "coroutine", "extern", "const", "'static", "Self", "u8", "u32", "i32",
        "usize", "bool", "f64", "str", "!", "*", "mut", "&", "#", "[", "]", "(", ")", "{", "}", "<", ">", ",", ";", ":", "::", "=", "->", "+", "-", ".", "auto", "marker", "upstream", "fundamental", "coinductive", "lang",
        "sized", "copy", "clone", "repr", "C", "packed", "Normalize", "WellFormed", "FromEnv", "IsLocal", "IsUpstream", "IsFullyVisible", "LocalImplAllowed", "Compatible", "DownstreamType", "Reveal", "ObjectSafe", "0", "1", "99999999999999999999",
        "4294967296", "int", "float", "Unpin", "object_safe", "non_enumerable", "phantom_data", "variance", "Invariant", "Covariant", "Contravariant", "as", "unsafe", "async", "yield", "witnesses", "resume",
    ] {
        set.insert(t.to_string());
    }
    set.into_iter().collect()
}

/// Runs the whole text pipeline on a program text; returns (stage reached, panic message if any).
fn pipeline(text: &str) -> (&'static str, Option<String>) {
    let parsed = catch_unwind(AssertUnwindSafe(|| chalk_parse::parse_program(text).is_ok()));
    match parsed {
        Err(e) => return ("parse_program", Some(format!("{} at {}", crate::case::panic_msg(&e), last_panic_loc()))),
        Ok(false) => return ("parse-error", None),
        Ok(true) => {}
    }
    let lowered = catch_unwind(AssertUnwindSafe(|| {
        let db = ChalkDatabase::with(text, slg());
        db.program_ir().map(|_| ()).map_err(|e| e.to_string())
    }));
    match lowered {
        Err(e) => ("program_ir", Some(format!("{} at {}", crate::case::panic_msg(&e), last_panic_loc()))),
        Ok(Err(_)) => ("lowering-error", None),
        Ok(Ok(())) => ("lowered", None),
    }
}

fn goal_pipeline(l: &Loaded, goal: &str) -> (&'static str, Option<String>) {
    let parsed = catch_unwind(AssertUnwindSafe(|| chalk_parse::parse_goal(goal).map_err(|e| e.to_string())));
    let ast = match parsed {
        Err(e) => return ("parse_goal", Some(format!("{} at {}", crate::case::panic_msg(&e), last_panic_loc()))),
        Ok(Err(_)) => return ("goal-parse-error", None),
        Ok(Ok(a)) => a,
    };
    let lowered = catch_unwind(AssertUnwindSafe(|| with_program(l, || chalk_integration::lowering::lower_goal(&*ast, &*l.program).is_ok())));
    match lowered {
        Err(e) => ("lower_goal", Some(format!("{} at {}", crate::case::panic_msg(&e), last_panic_loc()))),
        Ok(false) => ("goal-lowering-error", None),
        Ok(true) => ("goal-lowered", None),
    }
}

fn mutate_tokens(r: &mut Rng, toks: &mut Vec<String>, vocab: &[String], n: usize) {
    for _ in 0..n {
        if toks.is_empty() {
            toks.push(r.pick(vocab).clone());
            continue;
        }
        let i = r.below(toks.len());
        match r.below(12) {
            9 => {
                // a character no token can start with, ASCII or not (the error paths print a position marker)
                let odd = ["\u{e9}", "\u{2192}", "B\u{e4}r", "\u{1F600}", "@", "$", "`", "\u{3b1}\u{3b2}", "\u{a0}", "~", "\u{200b}"];
                let t = r.pick(&odd).to_string();
                if r.chance(50) {
                    toks.insert(i, t);
                } else {
                    toks[i] = format!("{}{}", toks[i], t);
                }
            }
            10 | 11 => {
                // generic arguments on a name that follows `::` or precedes `=` (associated types), or after any name
                let names: Vec<String> = toks.iter().filter(|t| t.chars().next().map_or(false, |c| c.is_alphabetic() || c == '\'') || t.chars().all(|c| c.is_ascii_digit())).cloned().collect();
                let sites: Vec<usize> = (0..toks.len())
                    .filter(|&j| toks[j].chars().next().map_or(false, |c| c.is_alphabetic()) && ((j > 0 && toks[j - 1] == "::") || toks.get(j + 1).map_or(false, |n| n == "=")))
                    .collect();
                let at = if !sites.is_empty() && r.chance(80) { *r.pick(&sites) } else { i };
                if !names.is_empty() {
                    let n = 1 + r.below(3);
                    let mut ins = vec!["<".to_string()];
                    for k in 0..n {
                        if k > 0 {
                            ins.push(",".into());
                        }
                        ins.push(r.pick(&names).clone());
                    }
                    ins.push(">".into());
                    for (k, t) in ins.into_iter().enumerate() {
                        toks.insert((at + 1 + k).min(toks.len()), t);
                    }
                }
            }
            0 => {
                toks.remove(i);
            }
            1 => {
                let t = toks[i].clone();
                toks.insert(i, t);
            }
            2 => {
                let j = r.below(toks.len());
                toks.swap(i, j);
            }
            3 => toks[i] = r.pick(vocab).clone(),
            4 => toks.insert(i, r.pick(vocab).clone()),
            5 => {
                // replace an identifier by another identifier of the same text (different sort: struct <-> trait ...)
                let idents: Vec<String> = toks.iter().filter(|t| t.chars().next().map_or(false, |c| c.is_uppercase())).cloned().collect();
                if !idents.is_empty() && toks[i].chars().next().map_or(false, |c| c.is_alphabetic()) {
                    toks[i] = r.pick(&idents).clone();
                }
            }
            6 => {
                // huge / odd integer literals
                if toks[i].chars().all(|c| c.is_ascii_digit()) {
                    toks[i] = ["99999999999", "18446744073709551616", "00", "4294967295", "4294967296"][r.below(5)].to_string();
                }
            }
            7 => {
                // drop or duplicate a whole bracketed group's opener
                let open = ["<", "(", "{", "["][r.below(4)];
                toks.insert(i, open.to_string());
            }
            _ => {
                // duplicate a run of tokens (duplicate items, duplicate parameters)
                let len = 1 + r.below(12.min(toks.len() - i));
                let run: Vec<String> = toks[i..i + len].to_vec();
                for (k, t) in run.into_iter().enumerate() {
                    toks.insert(i + len + k, t);
                }
            }
        }
    }
}

pub fn run(ctx: &Ctx, out: &mut CaseOut) {
    let mut r = Rng::for_case(ctx.prop, ctx.seed, ctx.k);
    let vocab: Vec<String> = VOCAB.with(|v| v.clone());
    let ncorpus = CORPUS.with(|c| c.len());
    let report = |out: &mut CaseOut, kind: &str, text: &str, stage: &str, panic: Option<String>| {
        out.evals += 1;
        match panic {
            Some(p) => out.violation(None, format!("{} panicked on a {} input: {}", stage, kind, crate::case::truncate(&p, 200)), J::obj().set("input_kind", kind).set("stage", stage).set("input", crate::case::truncate(text, 4000)).set("panic", p.as_str())),
            None => {
                out.count(&format!("{}:{}", kind, stage));
                if stage == "lowering-error" || stage == "goal-lowering-error" || stage == "lowered" {
                    out.nt(text);
                }
            }
        }
    };
    for rep in 0..10 {
        match (ctx.k + rep) % 6 {
            0 => {
                // random bytes / characters
                let n = r.below(120);
                let alphabet: Vec<char> = " \n\t{}()<>[],;:'#!&*=-+.0123456789abcdefgXYZTU_/\\\"\u{e9}\u{1F600}\0".chars().collect();
                let s: String = (0..n).map(|_| *r.pick(&alphabet)).collect();
                let (st, p) = pipeline(&s);
                report(out, "random-characters", &s, st, p);
                // the same kind of text as a goal
                if let Ok(l) = load("struct A { } trait Foo { }", slg(), false) {
                    let n = r.below(40);
                    let g: String = (0..n).map(|_| *r.pick(&alphabet)).collect();
                    let (st, p) = goal_pipeline(&l, &g);
                    report(out, "random-characters-goal", &g, st, p);
                }
            }
            1 => {
                // random token sequences over the grammar's vocabulary
                let n = r.below(60);
                let toks: Vec<String> = (0..n).map(|_| r.pick(&vocab).clone()).collect();
                let s = toks.join(" ");
                let (st, p) = pipeline(&s);
                report(out, "random-tokens", &s, st, p);
            }
            2 | 3 => {
                // corpus program under token-level mutation
                let e = CORPUS.with(|c| c[r.below(ncorpus)].clone());
                let mut toks = tokenize(&e.program);
                let n = 1 + r.below(4);
                mutate_tokens(&mut r, &mut toks, &vocab, n);
                let s = toks.join(" ");
                let (st, p) = pipeline(&s);
                report(out, "mutated-corpus-program", &s, st, p);
            }
            4 => {
                // valid generated program with injected semantic errors
                let w = workload(&mut r, ctx.k + rep, 2, 2);
                let mut toks = tokenize(&w.text);
                let idents: Vec<usize> = toks.iter().enumerate().filter(|(_, t)| t.chars().next().map_or(false, |c| c.is_uppercase())).map(|(i, _)| i).collect();
                for _ in 0..1 + r.below(3) {
                    if idents.is_empty() {
                        break;
                    }
                    let i = *r.pick(&idents);
                    match r.below(4) {
                        0 => toks[i] = "Unknown".into(),
                        1 => {
                            let j = *r.pick(&idents);
                            toks[i] = toks[j].clone();
                        }
                        2 => {
                            // wrong arity
                            toks.insert(i + 1, "<".into());
                            toks.insert(i + 2, toks[*r.pick(&idents)].clone());
                            toks.insert(i + 3, ">".into());
                        }
                        _ => toks[i] = ["u32", "str", "Self", "'static", "dyn", "fn"][r.below(6)].into(),
                    }
                }
                let s = toks.join(" ");
                let (st, p) = pipeline(&s);
                report(out, "generated-program-with-semantic-errors", &s, st, p);
            }
            _ => {
                // goals: mutated corpus goals against their (valid) program
                let e = CORPUS.with(|c| c[r.below(ncorpus)].clone());
                if e.goals.is_empty() {
                    continue;
                }
                let l = match load(&e.program, slg(), false) {
                    Ok(l) => l,
                    Err(_) => continue,
                };
                for _ in 0..3 {
                    let mut toks = tokenize(r.pick(&e.goals[..]).as_str());
                    let n = r.below(4);
                    mutate_tokens(&mut r, &mut toks, &vocab, n);
                    let s = toks.join(" ");
                    let (st, p) = goal_pipeline(&l, &s);
                    report(out, "mutated-goal", &s, st, p);
                }
            }
        }
    }
    if out.sample.is_none() {
        out.sample = Some(J::obj().set("note", "inputs are random characters, random token sequences, mutated corpus programs/goals and generated programs with injected semantic errors").set("vocabulary_size", vocab.len()));
    }
}
