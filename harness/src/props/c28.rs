//! C28 – every returned solution is a well-formed answer for its query (universal monitor).
use crate::case::{CaseOut, Ctx, Tier};
use crate::common::*;
use crate::drive::*;
use crate::json::J;
use crate::props::workload::workload;
use crate::rng::Rng;
use chalk_integration::interner::ChalkIr;
use chalk_ir::visit::{TypeSuperVisitable, TypeVisitable, TypeVisitor};
use chalk_ir::*;
use chalk_solve::infer::InferenceTable;
use chalk_solve::{Guidance, Solution, SubstitutionResult};
use std::ops::ControlFlow;
use std::panic::{catch_unwind, AssertUnwindSafe};

pub fn cases(t: Tier) -> u64 {
    match t {
        Tier::Quick => 640,
        Tier::Thorough => 8000,
    }
}

struct Scan {
    nbinders: usize,
    max_universe: usize,
    err: Option<String>,
    /// binders *inside* the value that are being traversed: (level, kinds they declare). Only fn-pointer binders are
    /// tracked (they declare `num_binders` lifetimes); references into untracked binders are not judged.
    levels: Vec<(u32, Vec<VariableKind<I>>)>,
}
impl Scan {
    /// A variable bound by a binder inside the value: the binder must declare that index with that kind.
    fn check_inner(&mut self, bv: BoundVar, outer: DebruijnIndex, want: &str) -> ControlFlow<()> {
        let level = outer.depth() - 1 - bv.debruijn.depth();
        if let Some((_, kinds)) = self.levels.iter().find(|(l, _)| *l == level) {
            let ok = match kinds.get(bv.index) {
                Some(VariableKind::Ty(_)) => want == "type",
                Some(VariableKind::Lifetime) => want == "lifetime",
                Some(VariableKind::Const(_)) => want == "const",
                None => false,
            };
            if !ok {
                self.err = Some(format!("{} variable {:?} refers to a binder inside the value that declares {} parameter(s) and no {} at that index", want, bv, kinds.len(), want));
                return ControlFlow::Break(());
            }
        }
        ControlFlow::Continue(())
    }
}
impl TypeVisitor<I> for Scan {
    type BreakTy = ();
    fn as_dyn(&mut self) -> &mut dyn TypeVisitor<I, BreakTy = ()> {
        self
    }
    fn visit_ty(&mut self, ty: &Ty<I>, outer: DebruijnIndex) -> ControlFlow<()> {
        match ty.kind(ChalkIr) {
            TyKind::BoundVar(bv) if bv.debruijn < outer => self.check_inner(*bv, outer, "type"),
            TyKind::Function(f) => {
                self.levels.push((outer.depth(), vec![VariableKind::Lifetime; f.num_binders]));
                let mut r = ControlFlow::Continue(());
                for a in f.substitution.0.iter(ChalkIr) {
                    r = a.visit_with(self.as_dyn(), outer.shifted_in());
                    if r.is_break() {
                        break;
                    }
                }
                self.levels.pop();
                r
            }
            _ => ty.super_visit_with(self.as_dyn(), outer),
        }
    }
    fn visit_lifetime(&mut self, lt: &Lifetime<I>, outer: DebruijnIndex) -> ControlFlow<()> {
        match lt.data(ChalkIr) {
            LifetimeData::BoundVar(bv) if bv.debruijn < outer => self.check_inner(*bv, outer, "lifetime"),
            _ => lt.super_visit_with(self.as_dyn(), outer),
        }
    }
    fn visit_const(&mut self, c: &Const<I>, outer: DebruijnIndex) -> ControlFlow<()> {
        match &c.data(ChalkIr).value {
            ConstValue::BoundVar(bv) if bv.debruijn < outer => self.check_inner(*bv, outer, "const"),
            _ => c.super_visit_with(self.as_dyn(), outer),
        }
    }
    fn visit_free_var(&mut self, bv: BoundVar, outer: DebruijnIndex) -> ControlFlow<()> {
        match bv.shifted_out_to(outer) {
            Some(b) if b.debruijn == DebruijnIndex::INNERMOST && b.index < self.nbinders => ControlFlow::Continue(()),
            other => {
                self.err = Some(format!("bound variable {:?} does not refer to one of the solution's own {} binders (relative: {:?})", bv, self.nbinders, other));
                ControlFlow::Break(())
            }
        }
    }
    fn visit_inference_var(&mut self, v: InferenceVar, _: DebruijnIndex) -> ControlFlow<()> {
        self.err = Some(format!("inference variable {:?} in a returned solution", v));
        ControlFlow::Break(())
    }
    fn visit_free_placeholder(&mut self, p: PlaceholderIndex, _: DebruijnIndex) -> ControlFlow<()> {
        if p.ui.counter >= self.max_universe {
            self.err = Some(format!("placeholder {:?} names universe {} but the query only has {} universes", p, p.ui.counter, self.max_universe));
            return ControlFlow::Break(());
        }
        ControlFlow::Continue(())
    }
    fn interner(&self) -> I {
        ChalkIr
    }
}

struct NoFree {
    err: Option<String>,
}
impl TypeVisitor<I> for NoFree {
    type BreakTy = ();
    fn as_dyn(&mut self) -> &mut dyn TypeVisitor<I, BreakTy = ()> {
        self
    }
    fn visit_free_var(&mut self, bv: BoundVar, _: DebruijnIndex) -> ControlFlow<()> {
        self.err = Some(format!("free bound variable {:?} left after applying the solution to the query", bv));
        ControlFlow::Break(())
    }
    fn interner(&self) -> I {
        ChalkIr
    }
}

/// The well-formedness oracle. `binders`/`subst` are the solution's canonical binders and substitution.
pub fn check_wf(goal: &UGoal, binders: &CanonicalVarKinds<I>, subst: &Substitution<I>) -> Result<(), String> {
    let interner = ChalkIr;
    let qb = &goal.canonical.binders;
    let n = qb.len(interner);
    if subst.len(interner) != n {
        return Err(format!("substitution has {} entries but the query has {} unknowns", subst.len(interner), n));
    }
    let nb = binders.len(interner);
    for (i, (arg, qk)) in subst.iter(interner).zip(qb.iter(interner)).enumerate() {
        match (&qk.kind, arg.data(interner)) {
            (VariableKind::Ty(k), GenericArgData::Ty(t)) => {
                // integer / float restricted unknowns may only become scalars of that class or restricted variables
                let ok = match (k, t.kind(interner)) {
                    (TyVariableKind::General, _) => true,
                    (TyVariableKind::Integer, TyKind::Scalar(Scalar::Int(_))) | (TyVariableKind::Integer, TyKind::Scalar(Scalar::Uint(_))) => true,
                    (TyVariableKind::Float, TyKind::Scalar(Scalar::Float(_))) => true,
                    (kk, TyKind::BoundVar(bv)) if bv.debruijn == DebruijnIndex::INNERMOST && bv.index < nb => match &binders.as_slice(interner)[bv.index].kind {
                        VariableKind::Ty(k2) => k2 == kk,
                        _ => false,
                    },
                    _ => false,
                };
                if !ok {
                    return Err(format!("entry {} ({:?}) does not respect the kind {:?} of the query's unknown", i, t, k));
                }
            }
            (VariableKind::Lifetime, GenericArgData::Lifetime(_)) => {}
            (VariableKind::Const(_), GenericArgData::Const(_)) => {}
            (k, a) => return Err(format!("entry {} is {:?} but the query's unknown {} has kind {:?}", i, a, i, k)),
        }
    }
    // universes of the answer's own binders
    for (i, b) in binders.iter(interner).enumerate() {
        if b.skip_kind().counter >= goal.universes {
            return Err(format!("solution binder {} lives in universe {} but the query only has {} universes", i, b.skip_kind().counter, goal.universes));
        }
    }
    let mut scan = Scan { nbinders: nb, max_universe: goal.universes, err: None, levels: vec![] };
    let _ = subst.visit_with(&mut scan, DebruijnIndex::INNERMOST);
    if let Some(e) = scan.err {
        return Err(e);
    }
    // applying it to the query never fails and leaves nothing dangling
    let canon = Canonical { binders: binders.clone(), value: subst.clone() };
    let applied = catch_unwind(AssertUnwindSafe(|| {
        let mut table: InferenceTable<I> = InferenceTable::new();
        for _ in 0..goal.universes {
            table.new_universe();
        }
        let s = table.instantiate_canonical(interner, canon);
        s.apply(goal.canonical.value.clone(), interner)
    }));
    match applied {
        Err(e) => Err(format!("applying the solution to the query panicked: {}", crate::case::panic_msg(&e))),
        Ok(v) => {
            let mut nf = NoFree { err: None };
            let _ = v.visit_with(&mut nf, DebruijnIndex::INNERMOST);
            match nf.err {
                Some(e) => Err(e),
                None => Ok(()),
            }
        }
    }
}

pub fn check_solution(goal: &UGoal, sol: &Option<Solution<I>>) -> Result<&'static str, String> {
    match sol {
        None => Ok("none"),
        Some(Solution::Unique(c)) => check_wf(goal, &c.binders, &c.value.subst).map(|_| "unique"),
        Some(Solution::Ambig(Guidance::Definite(c))) => check_wf(goal, &c.binders, &c.value).map(|_| "definite"),
        Some(Solution::Ambig(Guidance::Suggested(c))) => check_wf(goal, &c.binders, &c.value).map(|_| "suggested"),
        Some(Solution::Ambig(Guidance::Unknown)) => Ok("unknown"),
    }
}

/// Goals with type, lifetime and const unknowns and nested forall, over a fixed small program.
fn special_goals(r: &mut Rng) -> (String, Vec<String>) {
    let prog = "struct A { } struct B { } struct Vec<T> { } struct Rf<'a, T> { } struct Arr<const N> { } struct P2<const N, const M> { }\n\
                trait Foo { } trait Bar<T> { } trait Lt<'a> { } trait Q { }\n\
                impl Foo for A { } impl<T> Foo for Vec<T> where T: Foo { } impl<'a, T> Foo for Rf<'a, T> { }\n\
                impl<const N> Foo for Arr<N> { } impl<const N> Foo for P2<N, N> { } impl Bar<A> for B { } impl<T> Bar<Vec<T>> for Vec<T> { }\n\
                impl<'a> Lt<'a> for A { } impl<T> Q for T { } impl Foo for u32 { } impl Foo for f64 { }\n";
    let pool = [
        "exists<T> { T: Foo }",
        "exists<T, U> { T: Bar<U> }",
        "exists<'a> { A: Lt<'a> }",
        "forall<'a> { exists<'b> { Rf<'a, A>: Foo, A: Lt<'b> } }",
        "exists<const N> { Arr<N>: Foo }",
        "forall<const N> { exists<const M> { P2<N, M>: Foo } }",
        "forall<T> { forall<const N> { exists<const M> { T: Q, P2<N, M>: Foo } } }",
        "forall<T> { exists<U> { forall<V> { exists<W> { Vec<T>: Bar<U>, V: Q, W: Foo } } } }",
        "forall<T> { exists<U> { U = Vec<T> } }",
        "exists<U> { forall<T> { U = Vec<T> } }",
        "forall<T, 'a> { exists<U, 'b, const N> { Rf<'b, U>: Foo, U = Vec<T>, Arr<N>: Foo } }",
        "exists<int N> { N: Foo }",
        "exists<float N> { N: Foo }",
        "exists<int N, T> { Vec<N>: Bar<T> }",
        "forall<T> { if (T: Foo) { exists<U> { Vec<U>: Foo, U = T } } }",
        "forall<'a> { forall<'b> { exists<'c> { Rf<'c, A>: Foo } } }",
    ];
    let mut gs: Vec<String> = pool.iter().map(|s| s.to_string()).collect();
    r.shuffle(&mut gs);
    (prog.to_string(), gs)
}

/// Conjunctions of equalities between unknowns and terms with binders (nested fn pointers, `for<'a> fn(..)`), in a
/// shuffled order, with `forall`s nested *inside* the conjunction (those are not peeled into the query) that introduce
/// further existentials of inner universes.
fn equality_goals(r: &mut Rng) -> (String, Vec<String>) {
    let prog = "struct Vec<X> { } struct Pair<A, B> { } struct Ref<'a, X> { } struct Inv<'a> { } struct A { }\ntrait Tr { } impl Tr for u32 { } impl<X> Tr for Vec<X> where X: Tr { }\n";
    fn term(r: &mut Rng, tys: &[String], lts: &[String], depth: usize) -> String {
        let leaf = |r: &mut Rng| if !tys.is_empty() && r.chance(60) { r.pick(tys).clone() } else { r.pick(&["u32", "A", "bool"]).to_string() };
        if depth == 0 {
            return leaf(r);
        }
        let lt = |r: &mut Rng| if !lts.is_empty() && r.chance(70) { r.pick(lts).clone() } else { "'static".to_string() };
        match r.below(9) {
            0 => format!("Vec<{}>", term(r, tys, lts, depth - 1)),
            1 => format!("Pair<{}, {}>", term(r, tys, lts, depth - 1), term(r, tys, lts, depth - 1)),
            2 => format!("fn({})", term(r, tys, lts, depth - 1)),
            3 => format!("fn(fn({}))", term(r, tys, lts, depth - 1)),
            4 => format!("fn({}) -> {}", term(r, tys, lts, depth - 1), term(r, tys, lts, depth - 1)),
            5 => format!("for<'x> fn(Ref<'x, {}>)", term(r, tys, lts, depth - 1)),
            6 => format!("for<'x> fn(for<'y> fn(Ref<'x, Ref<'y, {}>>))", term(r, tys, lts, depth - 1)),
            7 => format!("Ref<{}, {}>", lt(r), term(r, tys, lts, depth - 1)),
            _ => format!("&{} {}", lt(r), term(r, tys, lts, depth - 1)),
        }
    }
    let mut goals = vec![];
    for _ in 0..10 {
        let nt = 2 + r.below(3);
        let nl = r.below(3);
        let tys: Vec<String> = (0..nt).map(|i| format!("T{}", i)).collect();
        let lts: Vec<String> = (0..nl).map(|i| format!("'l{}", i)).collect();
        let mut atoms: Vec<String> = vec![];
        // a chain: T_i = term over T_{i+1..}
        for i in 0..nt - 1 {
            if r.chance(80) {
                let d = 1 + r.below(2);
                atoms.push(format!("{} = {}", tys[i], term(r, &tys[i + 1..], &lts, d)));
            }
        }
        match r.below(6) {
            0 => atoms.push("u32: Tr".to_string()),
            1 => atoms.push(format!("{}: Tr", r.pick(&tys))),
            _ => {}
        }
        // a nested forall with inner existentials flowing into an outer unknown
        if r.chance(45) {
            let t = r.pick(&tys).clone();
            atoms.push(match r.below(5) {
                0 => format!("forall<'b> {{ exists<'a> {{ {} = Ref<'a, u32> }} }}", t),
                1 => format!("forall<'b> {{ exists<'a> {{ {} = &'a u32 }} }}", t),
                2 => format!("forall<X> {{ exists<Y> {{ {} = Vec<Y> }} }}", t),
                3 => format!("forall<'b> {{ exists<'a, Y> {{ {} = Pair<Inv<'a>, Y> }} }}", t),
                _ => format!("forall<'b> {{ {} = Inv<'b> }}", t),
            });
        }
        if atoms.is_empty() {
            atoms.push(format!("{} = u32", tys[0]));
        }
        r.shuffle(&mut atoms);
        let mut binders = tys.clone();
        binders.extend(lts.iter().cloned());
        let body = atoms.join(", ");
        goals.push(if r.chance(25) { format!("forall<P> {{ exists<{}> {{ {} }} }}", binders.join(", "), body.replace("bool", "P")) } else { format!("exists<{}> {{ {} }}", binders.join(", "), body) });
    }
    (prog.to_string(), goals)
}

pub fn run(ctx: &Ctx, out: &mut CaseOut) {
    let mut r = Rng::for_case(ctx.prop, ctx.seed, ctx.k);
    let (text, goals, fragment): (String, Vec<String>, &str) = if ctx.k % 5 == 0 {
        let (p, g) = special_goals(&mut r);
        (p, g, "lifetimes+consts+nested-forall")
    } else if ctx.k % 11 == 9 || ctx.k % 11 == 4 {
        let (p, g) = equality_goals(&mut r);
        (p, g, "equalities-under-binders")
    } else if ctx.k % 11 == 7 {
        let w = crate::props::workload::lifetime_work(&mut r, 8);
        (w.text.clone(), w.goals.iter().map(|g| g.0.clone()).collect(), w.fragment)
    } else if ctx.k % 11 == 8 {
        let z = crate::zoo::gen_zoo(&mut r);
        (z.text.clone(), z.goals.iter().map(|g| g.0.clone()).collect(), "constructor-zoo")
    } else {
        let w = workload(&mut r, ctx.k / 5 * 4 + ctx.k % 5, 2, 8);
        (w.text.clone(), w.goals.iter().map(|g| g.0.clone()).collect(), w.fragment)
    };
    out.sample = Some(J::obj().set("fragment", fragment).set("program", text.as_str()).set("goal", goals.get(0).cloned().unwrap_or_default()));
    for choice in both() {
        let l = match load(&text, choice, false) {
            Ok(l) => l,
            Err(e) => {
                out.inconclusive(&format!("program failed to lower: {}", crate::case::truncate(&e, 80)));
                return;
            }
        };
        with_program(&l, || {
            for g in &goals {
                let goal = match lower_goal_text(&l, g) {
                    Ok(g) => g,
                    Err(_) => {
                        out.count("goal-did-not-lower(skipped)");
                        continue;
                    }
                };
                use chalk_solve::ext::GoalExt;
                let peeled = goal.into_peeled_goal(ChalkIr);
                let db = FaultDb::new(&*l.program, solver_name(&choice));
                db.budget.set(300_000);
                let mut s = choice.into_solver();
                let o = solve(&mut *s, &db, &peeled);
                out.evals += 1;
                match &o {
                    Outcome::Answer(a) => match check_solution(&peeled, a) {
                        Ok(kind) => {
                            out.count(&format!("well-formed:{}:{}", solver_name(&choice), kind));
                            if kind != "none" && kind != "unknown" && !peeled.canonical.binders.is_empty(ChalkIr) {
                                out.nt(&format!("{}|{}|{}|{}", text, g, solver_name(&choice), disp(a)));
                                out.count(&format!("nontrivial:{}", fragment));
                            }
                        }
                        Err(e) => {
                            out.violation(None, format!("{} returned `{}` for `{}`: {}", solver_name(&choice), disp(a), g, e), detail(&text, g, &choice).set("answer", disp(a)).set("query", format!("{:?}", peeled)));
                        }
                    },
                    _ => out.count("solve-panicked-or-over-budget(see C09)"),
                }
                // enumerated SLG answers
                if solver_name(&choice) == "slg" && !peeled.canonical.binders.is_empty(ChalkIr) {
                    let db = FaultDb::new(&*l.program, "slg");
                    db.budget.set(300_000);
                    let mut s = choice.into_solver();
                    let mut n = 0;
                    let mut bad: Option<(String, String)> = None;
                    let mut seen = 0u64;
                    db.arm();
                    let _ = catch_unwind(AssertUnwindSafe(|| {
                        s.solve_multiple(&db, &peeled, &mut |res, _| {
                            n += 1;
                            let c = match &res {
                                SubstitutionResult::Definite(c) | SubstitutionResult::Ambiguous(c) => Some(c),
                                SubstitutionResult::Floundered => None,
                            };
                            if let Some(c) = c {
                                seen += 1;
                                if let Err(e) = check_wf(&peeled, &c.binders, &c.value.subst) {
                                    bad = Some((format!("{}", res.as_ref().map(|v| v.display(ChalkIr))), e));
                                    return false;
                                }
                            }
                            n < 12
                        })
                    }));
                    out.add("well-formed:slg:enumerated-answers", seen);
                    if let Some((shown, e)) = bad {
                        out.violation(None, format!("slg enumerated answer `{}` for `{}`: {}", shown, g, e), detail(&text, g, &choice).set("answer", shown.as_str()));
                    }
                }
            }
        });
    }
}
