//! C03 – SLG answer enumeration is sound, duplicate-free and complete; the look-ahead flag is accurate.
use crate::case::{CaseOut, Ctx, Tier};
use crate::common::*;
use crate::drive::*;
use crate::gen::*;
use crate::json::J;
use crate::judge;
use crate::model::*;
use crate::rng::Rng;
use chalk_solve::SubstitutionResult;
use std::collections::BTreeMap;
use std::panic::{catch_unwind, AssertUnwindSafe};

pub fn cases(t: Tier) -> u64 {
    match t {
        Tier::Quick => 480,
        Tier::Thorough => 8000,
    }
}

#[derive(Clone, Debug)]
pub struct Yielded {
    pub kind: &'static str, // definite | ambiguous | floundered
    pub shown: String,
    pub subst: Option<(BTreeMap<usize, MTy>, Vec<u32>)>,
    pub more: bool,
}

pub struct Enumeration {
    pub seq: Vec<Yielded>,
    /// Some(true): ran to completion; Some(false): the callback stopped it; None: panicked
    pub finished: Option<bool>,
    pub panic: Option<String>,
    pub translate_err: Option<String>,
}

pub fn enumerate(l: &Loaded, solver: &mut dyn chalk_solve::Solver<I>, db: &FaultDb<'_>, peeled: &Peeled, stop_after: usize) -> Enumeration {
    let mut seq: Vec<Yielded> = vec![];
    let mut translate_err = None;
    db.arm();
    let r = catch_unwind(AssertUnwindSafe(|| {
        solver.solve_multiple(db, &peeled.goal, &mut |res, more| {
            let (kind, c) = match &res {
                SubstitutionResult::Definite(c) => ("definite", Some(c)),
                SubstitutionResult::Ambiguous(c) => ("ambiguous", Some(c)),
                SubstitutionResult::Floundered => ("floundered", None),
            };
            let shown = format!("{}", res.as_ref().map(|v| v.display(chalk_integration::interner::ChalkIr)));
            let subst = c.and_then(|c| match translate_subst(&l.program, peeled, &c.binders, &c.value.subst) {
                Ok(x) => Some(x),
                Err(e) => {
                    translate_err = Some(e);
                    None
                }
            });
            seq.push(Yielded { kind, shown, subst, more });
            seq.len() < stop_after
        })
    }));
    match r {
        Ok(done) => Enumeration { seq, finished: Some(done), panic: None, translate_err },
        Err(e) => Enumeration { seq, finished: None, panic: Some(crate::case::panic_msg(&e)), translate_err },
    }
}

fn judge_enum(out: &mut CaseOut, label: &str, e: &Enumeration, sem: &mut Sem, uni: &Universe, goal: &MGoal, ex: &[(usize, u32)], exact: bool, text: &str, gtext: &str, nonground_co: bool) {
    judge_enum_h(out, label, e, sem, uni, goal, ex, exact, text, gtext, nonground_co, false)
}

/// Checks one enumeration against the model. `label` distinguishes fresh / resumed enumerations in counters;
/// `stale_tables`: hook H4 showed F11's root-cause condition for this enumeration (it excuses lost answers only).
fn judge_enum_h(out: &mut CaseOut, label: &str, e: &Enumeration, sem: &mut Sem, uni: &Universe, goal: &MGoal, ex: &[(usize, u32)], exact: bool, text: &str, gtext: &str, nonground_co: bool, stale_tables: bool) {
    let d = |extra: &str| {
        detail(text, gtext, &slg())
            .set("enumeration", label)
            .set("yielded", J::Arr(e.seq.iter().map(|y| J::Str(format!("{} more={}", y.shown, y.more))).collect()))
            .set("finished", format!("{:?}", e.finished))
            .set("note", extra)
    };
    out.count(&format!("enumeration:{}:{}", label, match e.finished { Some(true) => "complete", Some(false) => "stopped", None => "panicked" }));
    // flag accuracy: while the callback keeps returning true, more_i <=> another answer follows
    let n = e.seq.len();
    for (i, y) in e.seq.iter().enumerate() {
        let last = i + 1 == n;
        match e.finished {
            Some(true) => {
                if y.more != !last {
                    out.violation(None, format!("'more answers follow' flag of answer {} is {} but {} answers were yielded in total", i, y.more, n), d("flag"));
                    return;
                }
            }
            Some(false) | None => {
                if !last && !y.more {
                    out.violation(None, format!("'more answers follow' flag of answer {} is false but another answer followed", i), d("flag"));
                    return;
                }
            }
        }
    }
    out.add("flags-checked", n as u64);
    // duplicates
    let mut seen = std::collections::HashSet::new();
    for y in &e.seq {
        if y.kind != "floundered" && !seen.insert((y.kind, y.shown.clone())) {
            out.violation(None, format!("answer `{}` was yielded twice in one enumeration", y.shown), d("duplicate"));
            return;
        }
    }
    // soundness of definite answers
    let mut all_translated = true;
    for y in &e.seq {
        if y.kind == "definite" {
            match &y.subst {
                Some((m, us)) => match judge::sound_instances(sem, uni, goal, ex, m, us) {
                    Ok(true) => out.count("judged:definite-answer-sound"),
                    Ok(false) => out.inconclusive("answer has too many instances to enumerate"),
                    Err(err) => {
                        let sig = if nonground_co { Some("slg:coinductive-nonground:unsound-definite") } else { None };
                        out.violation(sig, format!("enumerated answer `{}`: {}", y.shown, err), d("soundness"));
                        return;
                    }
                },
                None => all_translated = false,
            }
        } else if y.subst.is_none() && y.kind == "ambiguous" {
            all_translated = false;
        }
    }
    // completeness: only for complete, non-floundered enumerations of exact (non-increasing) programs
    let floundered = e.seq.iter().any(|y| y.kind == "floundered");
    if e.finished == Some(true) && !floundered && exact && all_translated {
        if let Some(sols) = judge::true_solutions(sem, uni, goal, ex) {
            for s in &sols {
                let covered = e.seq.iter().any(|y| y.subst.as_ref().map_or(false, |(m, us)| judge::is_instance(m, us, s)));
                if !covered {
                    out.violation(if stale_tables { Some("slg:stale-delayed-answer-table") } else { None }, format!("enumeration finished but the true solution {} is an instance of no yielded answer", judge::show_asg(s)), d("completeness"));
                    return;
                }
            }
            out.count("judged:complete-enumeration");
            out.add("true-solutions-covered", sols.len() as u64);
            if !sols.is_empty() || n == 0 {
                out.nt(&format!("{}|{}|{}|{}", text, gtext, label, e.seq.iter().map(|y| y.shown.clone()).collect::<Vec<_>>().join(";")));
            }
        }
    }
}

pub fn run(ctx: &Ctx, out: &mut CaseOut) {
    let mut r = Rng::for_case(ctx.prop, ctx.seed, ctx.k);
    // 60% finite-solution (non-increasing) programs, 40% with growing where-clauses (infinite answer sets)
    let exact = ctx.k % 5 < 3;
    let cfg = if exact { GenCfg { coinductive_pct: if ctx.k % 4 == 0 { 30 } else { 0 }, ..Default::default() } } else { GenCfg { increasing_pct: 35, ..Default::default() } };
    let mut prog = gen_program(&mut r, &cfg);
    if !exact && r.chance(60) {
        // the classic infinite family: impl<T> T0 for Vec<T> where T: T0
        let t0 = prog.traits[0].clone();
        if t0.nparams == 0 {
            prog.impls.push(MImpl { nvars: 1, head: MPred::new(&t0.name, vec![MTy::app("Vec", vec![MTy::Var(0)])]), wheres: vec![MPred::new(&t0.name, vec![MTy::Var(0)])], positive: true, ..Default::default() });
        }
    }
    // every 4th case: the multi-answer fragment (several answers per goal, shared sub-tables, a floundering strand)
    let multi = ctx.k % 4 == 3;
    let (prog, multi_goals) = if multi {
        let (p, mut g) = gen_multi_or_graph(&mut r);
        g.retain(|x| !x.1.is_empty());
        r.shuffle(&mut g);
        (p, g)
    } else {
        (prog, vec![])
    };
    let exact = exact || multi;
    let text = program_text(&prog);
    let l = match load(&text, slg(), false) {
        Ok(l) => l,
        Err(_) => {
            out.inconclusive("generated program failed to lower");
            return;
        }
    };
    // the previous goal of this case: used for "some answers of another goal were pulled first" histories
    let mut prev: Option<(String, Vec<usize>)> = None;
    for gi in 0..6 {
        let gcfg = GoalCfg { closed_only: false, allow_not: false, allow_eq: true, need_exists: true };
        let (goal, exs) = if multi { multi_goals[gi % multi_goals.len()].clone() } else { gen_goal(&mut r, &prog, &gcfg) };
        if exs.is_empty() {
            continue;
        }
        let gtext = goal_text(&goal);
        let mut phs = vec![];
        collect_phs(&goal, &mut phs);
        let mut ex = vec![];
        collect_exists(&goal, &mut ex);
        let uni = build_universe(&prog, &phs, 3);
        let mut sem = Sem::new(&prog, 5);
        let stop = 1 + r.below(20);
        with_program(&l, || {
            let peeled = match lower_and_peel(&l, &gtext, &exs) {
                Ok(p) => p,
                Err(e) => {
                    out.inconclusive(&format!("goal failed to lower: {}", crate::case::truncate(&e, 60)));
                    return;
                }
            };
            // fresh, to completion (capped at 40 answers)
            let db = FaultDb::new(&*l.program, "slg");
            db.budget.set(400_000);
            let mut s = slg().into_solver();
            let full = enumerate(&l, &mut *s, &db, &peeled, 40);
            out.evals += 1;
            if let Some(p) = &full.panic {
                if p.starts_with(BUDGET_PAYLOAD) {
                    out.count("solve-over-budget(not judged here; see C09)");
                } else {
                    out.count("solve-panicked(not judged here; see C09)");
                }
                return;
            }
            let ng = db.nonground_coinductive.get();
            judge_enum(out, "fresh", &full, &mut sem, &uni, &goal, &ex, exact, &text, &gtext, ng);
            // stop after `stop` answers, then enumerate again on the same solver
            if full.seq.len() > 1 {
                let db2 = FaultDb::new(&*l.program, "slg");
                db2.budget.set(400_000);
                let mut s2 = chalk_engine::solve::SLGSolver::<I>::new(10, None);
                let stop = stop.min(full.seq.len() - 1).max(1);
                let part = enumerate(&l, &mut s2, &db2, &peeled, stop);
                if part.panic.is_some() {
                    return;
                }
                judge_enum(out, "stopped-early", &part, &mut sem, &uni, &goal, &ex, exact, &text, &gtext, db2.nonground_coinductive.get());
                let stale = slg_goal_table_stale(&mut s2, &peeled.goal);
                let again = enumerate(&l, &mut s2, &db2, &peeled, 40);
                let stale = stale || slg_stale_table(&mut s2, &peeled.goal);
                out.evals += 2;
                if again.panic.is_some() {
                    out.count("solve-panicked(not judged here; see C09)");
                    return;
                }
                judge_enum_h(out, "resumed", &again, &mut sem, &uni, &goal, &ex, exact, &text, &gtext, db2.nonground_coinductive.get(), stale);
            }
            // a few answers of the previous goal first (shared tables are left partially evaluated), then this goal
            if let Some((ptext, pexs)) = &prev {
                if let Ok(pp) = lower_and_peel(&l, ptext, pexs) {
                    let db3 = FaultDb::new(&*l.program, "slg");
                    db3.budget.set(400_000);
                    let mut s3 = chalk_engine::solve::SLGSolver::<I>::new(10, None);
                    let k = 1 + r.below(4);
                    let first = enumerate(&l, &mut s3, &db3, &pp, k);
                    if first.panic.is_none() {
                        let stale = slg_goal_table_stale(&mut s3, &peeled.goal);
                        let then = enumerate(&l, &mut s3, &db3, &peeled, 40);
                        let stale = stale || slg_stale_table(&mut s3, &peeled.goal);
                        out.evals += 2;
                        if then.panic.is_some() {
                            out.count("solve-panicked(not judged here; see C09)");
                        } else {
                            judge_enum_h(out, "after-partial-other-goal", &then, &mut sem, &uni, &goal, &ex, exact, &text, &gtext, db3.nonground_coinductive.get(), stale);
                        }
                    }
                }
            }
        });
        if gi == 0 {
            out.sample = Some(J::obj().set("program", text.as_str()).set("goal", gtext.as_str()));
        }
        prev = Some((gtext.clone(), exs.clone()));
    }
}
