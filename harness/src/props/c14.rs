//! C14 – unification is sound and computes most general unifiers; C15 – failed unification leaves the inference
//! state untouched and success does not depend on argument order. Both are driven at InferenceTable::relate with an
//! independent Robinson unifier (kinds + universes) as the oracle.
use crate::case::{CaseOut, Ctx, Tier};
use crate::irgen::*;
use crate::json::J;
use crate::rng::Rng;
use chalk_integration::interner::ChalkIr;
use chalk_ir::*;
use chalk_solve::infer::InferenceTable;
use std::collections::BTreeMap;

pub fn cases(t: Tier) -> u64 {
    match t {
        Tier::Quick => 4000,
        Tier::Thorough => 80000,
    }
}

fn has_lifetime_free(t: &T) -> bool {
    match t {
        T::Ref(..) => false,
        T::App(_, a) | T::Tuple(a) => a.iter().all(has_lifetime_free),
        T::Slice(x) | T::Raw(_, x) | T::Arr(x, _) => has_lifetime_free(x),
        _ => true,
    }
}

pub fn run14(ctx: &Ctx, out: &mut CaseOut) {
    run(ctx, out, true)
}
pub fn run15(ctx: &Ctx, out: &mut CaseOut) {
    run(ctx, out, false)
}

fn run(ctx: &Ctx, out: &mut CaseOut, c14: bool) {
    let mut r = Rng::for_case("C14", ctx.seed, ctx.k);
    let i = ChalkIr;
    for _rep in 0..25 {
        let mut table: InferenceTable<crate::drive::I> = InferenceTable::new();
        let us = [UniverseIndex::root(), table.new_universe(), table.new_universe(), table.new_universe()];
        let nv = 1 + r.below(5);
        let mut vars = vec![];
        let mut o = O { cbind: BTreeMap::new(), bind: BTreeMap::new(), parent: vec![], uni: vec![], kind: vec![] };
        for v in 0..nv {
            let u = r.below(4);
            let k = match r.below(10) {
                0 => K::Int,
                1 => K::Float,
                2 => K::Const,
                3 => K::Lt,
                _ => K::Gen,
            };
            let ev = table.new_variable(us[u]);
            vars.push((InferenceVar::from(ev), k));
            o.parent.push(v);
            o.uni.push(u);
            o.kind.push(k);
        }
        let kinds: Vec<K> = o.kind.clone();
        let tyvars: Vec<usize> = (0..nv).filter(|&v| matches!(kinds[v], K::Gen | K::Int | K::Float)).collect();
        let cfg = TermCfg { lifetimes: true, consts: true, max_ph_universe: 3 };
        let mut log: Vec<String> = vec![];
        let steps = 1 + r.below(5);
        for _ in 0..steps {
            let depth = 1 + r.below(3);
            let a = gen_term(&mut r, &kinds, depth, &cfg);
            // bias towards unifiable pairs: b is often a variant of a with some sub-terms replaced by variables
            let b = if r.chance(55) { mutate(&mut r, &a, &kinds, &cfg) } else { gen_term(&mut r, &kinds, depth, &cfg) };
            let (ca, cb) = (to_chalk(&a, &vars), to_chalk(&b, &vars));
            let env = Environment::new(i);
            let covariant = has_lifetime_free(&o.deep(&a)) && has_lifetime_free(&o.deep(&b)) && r.chance(25);
            let variance = if covariant { Variance::Covariant } else { Variance::Invariant };
            let before = if c14 { String::new() } else { fingerprint(&table, &vars) };
            let swapped = if c14 {
                true
            } else {
                let mut t2 = table.clone();
                t2.relate(i, &InvDb, &env, Variance::Invariant, &cb, &ca).is_ok()
            };
            let res = table.relate(i, &InvDb, &env, variance, &ca, &cb);
            let mut o2 = o.clone();
            let ores = o2.unify(&a, &b);
            out.evals += 1;
            log.push(format!("relate({:?}, {:?}, {:?}) chalk={} oracle={}", variance, a, b, res.is_ok(), ores));
            let unis0: Vec<usize> = o.uni.clone();
            let detail = |log: &Vec<String>| J::obj().set("variables", J::Arr(kinds.iter().zip(&unis0).map(|(k, u)| J::Str(format!("{:?}@U{}", k, u))).collect())).set("history", J::Arr(log.iter().map(|s| J::Str(s.clone())).collect()));
            // A covariant relation that reaches two unknowns (at any depth) is deferred by chalk as a subtype obligation:
            // "Ok" then means "Ok provided the obligations hold", the assignment is not yet a unifier, and neither the
            // existence of a unifier nor the symmetric call can be compared with it.
            let deferred = covariant && matches!(&res, Ok(rr) if rr.goals.iter().any(|g| matches!(g.goal.data(i), GoalData::SubtypeGoal(_))));
            if deferred {
                out.count("covariant:deferred-subtype-obligation(not compared)");
                break;
            }
            if c14 {
                if res.is_ok() != ores {
                    out.violation(None, format!("unification {} but an assignment of the unknowns making both sides equal (respecting universes and kinds) {}", if res.is_ok() { "succeeded" } else { "failed" }, if ores { "exists" } else { "does not exist" }), detail(&log));
                    return;
                }
                match &res {
                    Ok(rr) => {
                        o = o2;
                        // only lifetime-outlives obligations may come back for alias-free inputs
                        // a covariant relation between two unknowns is deferred by chalk as a subtype obligation; the
                        // assignment is then not yet a unifier and is not compared
                        if covariant && rr.goals.iter().any(|g| matches!(g.goal.data(i), GoalData::SubtypeGoal(_))) {
                            out.count("covariant:deferred-subtype-obligation(not compared)");
                            break;
                        }
                        for g in &rr.goals {
                            let ok = matches!(g.goal.data(i), GoalData::DomainGoal(DomainGoal::Holds(WhereClause::LifetimeOutlives(_))));
                            if !ok {
                                out.violation(None, format!("unification of alias-free types returned the obligation {:?}", g), detail(&log));
                                return;
                            }
                        }
                        if covariant && !rr.goals.is_empty() {
                            out.violation(None, "covariant relation of lifetime-free types returned obligations".to_string(), detail(&log));
                            return;
                        }
                        let (c1, c2) = (chalk_canon(&table, &vars, &tyvars), o.canon(&tyvars));
                        if c1 != c2 {
                            out.violation(None, format!("resulting assignment differs from the most general unifier: chalk {} vs oracle {}", c1, c2), detail(&log).set("chalk", c1.as_str()).set("oracle", c2.as_str()));
                            return;
                        }
                        out.count(if covariant { "mgu-agrees:covariant-lifetime-free" } else { "mgu-agrees:invariant" });
                        out.nt(&format!("{:?}", log));
                    }
                    Err(_) => out.count("both-fail"),
                }
            } else {
                if res.is_ok() != swapped {
                    out.violation(None, format!("relate(a,b) {} but relate(b,a) {}", if res.is_ok() { "succeeds" } else { "fails" }, if swapped { "succeeds" } else { "fails" }), detail(&log));
                    return;
                }
                match &res {
                    Ok(_) => {
                        o = o2;
                        out.count("order-insensitive:success");
                    }
                    Err(_) => {
                        let after = fingerprint(&table, &vars);
                        if after != before {
                            out.violation(None, "a failed unification changed the inference state".to_string(), detail(&log).set("before", before.as_str()).set("after", after.as_str()));
                            return;
                        }
                        out.count("failed-relate-left-state-untouched");
                        out.nt(&format!("{:?}", log));
                    }
                }
            }
        }
        if out.sample.is_none() {
            out.sample = Some(J::obj().set("variables", J::Arr(kinds.iter().map(|k| J::Str(format!("{:?}", k))).collect())).set("history", J::Arr(log.iter().map(|s| J::Str(s.clone())).collect())));
        }
    }
}

/// A variant of `t`: some sub-terms replaced by variables / other terms.
fn mutate(r: &mut Rng, t: &T, kinds: &[K], cfg: &TermCfg) -> T {
    if r.chance(25) {
        let tv: Vec<usize> = kinds.iter().enumerate().filter(|(_, k)| matches!(k, K::Gen | K::Int | K::Float)).map(|(i, _)| i).collect();
        if !tv.is_empty() && r.chance(70) {
            return T::Var(*r.pick(&tv));
        }
        return gen_term(r, kinds, 1, cfg);
    }
    match t {
        T::App(c, a) => T::App(*c, a.iter().map(|x| mutate(r, x, kinds, cfg)).collect()),
        T::Tuple(a) => T::Tuple(a.iter().map(|x| mutate(r, x, kinds, cfg)).collect()),
        T::Slice(x) => T::Slice(Box::new(mutate(r, x, kinds, cfg))),
        T::Ref(m, l, x) => T::Ref(*m, if r.chance(30) { L::Static } else { l.clone() }, Box::new(mutate(r, x, kinds, cfg))),
        T::Raw(m, x) => T::Raw(*m, Box::new(mutate(r, x, kinds, cfg))),
        T::Arr(x, c) => T::Arr(Box::new(mutate(r, x, kinds, cfg)), c.clone()),
        other => other.clone(),
    }
}
