//! C16 – canonical forms identify queries up to renaming; round trips; universe compression is monotone and can be
//! undone.
use crate::case::{CaseOut, Ctx, Tier};
use crate::drive::I;
use crate::irgen::*;
use crate::json::J;
use crate::rng::Rng;
use chalk_integration::interner::ChalkIr;
use chalk_ir::cast::Cast;
use chalk_ir::interner::HasInterner;
use chalk_ir::visit::{TypeVisitable, TypeVisitor};
use chalk_ir::*;
use chalk_solve::infer::ucanonicalize::UniverseMapExt;
use chalk_solve::infer::InferenceTable;
use std::collections::BTreeMap;
use std::ops::ControlFlow;

pub fn cases(t: Tier) -> u64 {
    match t {
        Tier::Quick => 3000,
        Tier::Thorough => 60000,
    }
}

const NUNI: usize = 8;

#[derive(Clone, Debug)]
enum Arg {
    Ty(T),
    Lt(L),
    Ct(C),
}

#[derive(Clone, Debug)]
struct Spec {
    kinds: Vec<K>,
    unis: Vec<usize>,
    /// prior unifications (variable, term) / (var, var)
    eqs: Vec<(T, T)>,
    ceqs: Vec<(usize, usize)>,
    value: Vec<Arg>,
}

struct Built {
    table: InferenceTable<I>,
    vars: Vec<(InferenceVar, K)>,
    ok: bool,
}

/// Build the spec in a fresh table; `perm` is the order in which the variables are created, `eq_order` the order in
/// which the prior unifications are applied.
fn build(spec: &Spec, perm: &[usize], eq_order: &[usize]) -> Built {
    let i = ChalkIr;
    let mut table: InferenceTable<I> = InferenceTable::new();
    let mut us = vec![UniverseIndex::root()];
    for _ in 1..NUNI {
        us.push(table.new_universe());
    }
    let mut vars: Vec<Option<(InferenceVar, K)>> = vec![None; spec.kinds.len()];
    for &v in perm {
        let ev = table.new_variable(us[spec.unis[v]]);
        vars[v] = Some((InferenceVar::from(ev), spec.kinds[v]));
    }
    let vars: Vec<(InferenceVar, K)> = vars.into_iter().map(|x| x.unwrap()).collect();
    let env = Environment::new(i);
    let mut ok = true;
    let neq = spec.eqs.len();
    for &e in eq_order {
        if e < neq {
            let (a, b) = &spec.eqs[e];
            ok &= table.relate(i, &InvDb, &env, Variance::Invariant, &to_chalk(a, &vars), &to_chalk(b, &vars)).is_ok();
        } else {
            let (a, b) = spec.ceqs[e - neq];
            ok &= table.relate(i, &InvDb, &env, Variance::Invariant, &c_to_chalk(&C::Var(a), &vars), &c_to_chalk(&C::Var(b), &vars)).is_ok();
        }
    }
    Built { table, vars, ok }
}

fn value_of(spec: &Spec, vars: &[(InferenceVar, K)]) -> Substitution<I> {
    let i = ChalkIr;
    Substitution::from_iter(
        i,
        spec.value.iter().map(|a| -> GenericArg<I> {
            match a {
                Arg::Ty(t) => to_chalk(t, vars).cast(i),
                Arg::Lt(l) => l_to_chalk(l, vars).cast(i),
                Arg::Ct(c) => c_to_chalk(c, vars).cast(i),
            }
        }),
    )
}

/// Bound-variable occurrences of a canonical value in traversal order.
struct Occ {
    order: Vec<usize>,
    bad: Option<String>,
    universes: Vec<usize>,
}
impl TypeVisitor<I> for Occ {
    type BreakTy = ();
    fn as_dyn(&mut self) -> &mut dyn TypeVisitor<I, BreakTy = ()> {
        self
    }
    fn visit_free_var(&mut self, bv: BoundVar, outer: DebruijnIndex) -> ControlFlow<()> {
        match bv.shifted_out_to(outer) {
            Some(b) if b.debruijn == DebruijnIndex::INNERMOST => {
                if !self.order.contains(&b.index) {
                    self.order.push(b.index);
                }
            }
            _ => self.bad = Some(format!("escaping bound variable {:?}", bv)),
        }
        ControlFlow::Continue(())
    }
    fn visit_inference_var(&mut self, v: InferenceVar, _: DebruijnIndex) -> ControlFlow<()> {
        self.bad = Some(format!("inference variable {:?} left in a canonical value", v));
        ControlFlow::Continue(())
    }
    fn visit_free_placeholder(&mut self, p: PlaceholderIndex, _: DebruijnIndex) -> ControlFlow<()> {
        self.universes.push(p.ui.counter);
        ControlFlow::Continue(())
    }
    fn interner(&self) -> I {
        ChalkIr
    }
}

/// Universes of integer/float unknowns are semantically irrelevant (they can only become scalars) and chalk does not
/// demote them, so they depend on unification order; they are erased before canonical forms are compared.
fn norm<T: Clone + HasInterner<Interner = I>>(c: &Canonical<T>) -> Canonical<T> {
    let i = ChalkIr;
    let binders = CanonicalVarKinds::from_iter(
        i,
        c.binders.iter(i).map(|b| match &b.kind {
            VariableKind::Ty(TyVariableKind::Integer) | VariableKind::Ty(TyVariableKind::Float) => CanonicalVarKind::new(b.kind.clone(), UniverseIndex::root()),
            _ => b.clone(),
        }),
    );
    Canonical { binders, value: c.value.clone() }
}

fn gen_spec(r: &mut Rng) -> Spec {
    let nv = 2 + r.below(6);
    let mut kinds = vec![];
    let mut unis = vec![];
    for _ in 0..nv {
        kinds.push(match r.below(10) {
            0 => K::Int,
            1 => K::Float,
            2 | 3 => K::Lt,
            4 | 5 => K::Const,
            _ => K::Gen,
        });
        unis.push(r.below(NUNI));
    }
    let cfg = TermCfg { lifetimes: true, consts: true, max_ph_universe: NUNI - 1 };
    let tyvars: Vec<usize> = (0..nv).filter(|&v| matches!(kinds[v], K::Gen | K::Int | K::Float)).collect();
    let cvars: Vec<usize> = (0..nv).filter(|&v| kinds[v] == K::Const).collect();
    let mut eqs = vec![];
    let mut ceqs = vec![];
    for _ in 0..r.below(3) {
        if tyvars.len() >= 2 && r.chance(60) {
            eqs.push((T::Var(*r.pick(&tyvars)), T::Var(*r.pick(&tyvars))));
        } else if !tyvars.is_empty() {
            eqs.push((T::Var(*r.pick(&tyvars)), gen_term(r, &kinds, 1, &cfg)));
        }
        if cvars.len() >= 2 && r.chance(40) {
            ceqs.push((*r.pick(&cvars), *r.pick(&cvars)));
        }
    }
    let mut value = vec![];
    for _ in 0..1 + r.below(4) {
        match r.below(6) {
            0 => value.push(Arg::Lt(match r.below(3) {
                0 => L::Static,
                1 => L::Ph(1 + r.below(NUNI - 1), r.below(2)),
                _ => {
                    let lv: Vec<usize> = (0..nv).filter(|&v| kinds[v] == K::Lt).collect();
                    if lv.is_empty() {
                        L::Static
                    } else {
                        L::Var(*r.pick(&lv))
                    }
                }
            })),
            1 => value.push(Arg::Ct(if !cvars.is_empty() && r.chance(60) { C::Var(*r.pick(&cvars)) } else if r.chance(50) { C::Ph(1 + r.below(NUNI - 1), r.below(2)) } else { C::Val(r.below(3) as u32) })),
            _ => {
                let d = 1 + r.below(3);
                value.push(Arg::Ty(gen_term(r, &kinds, d, &cfg)))
            }
        }
    }
    Spec { kinds, unis, eqs, ceqs, value }
}

pub fn run(ctx: &Ctx, out: &mut CaseOut) {
    let mut r = Rng::for_case(ctx.prop, ctx.seed, ctx.k);
    let i = ChalkIr;
    for _rep in 0..10 {
        let spec = gen_spec(&mut r);
        let nv = spec.kinds.len();
        let ident: Vec<usize> = (0..nv).collect();
        let eq_ident: Vec<usize> = (0..spec.eqs.len() + spec.ceqs.len()).collect();
        let mut b1 = build(&spec, &ident, &eq_ident);
        if !b1.ok {
            out.count("prior-unifications-inconsistent(skipped)");
            continue;
        }
        out.evals += 1;
        let d = |extra: &str| J::obj().set("spec", format!("{:?}", spec)).set("note", extra);
        if out.sample.is_none() {
            out.sample = Some(d("sample"));
        }
        // oracle state of the classes (types via O, consts via a tiny union-find)
        let mut o = O { cbind: BTreeMap::new(), bind: BTreeMap::new(), parent: (0..nv).collect(), uni: spec.unis.clone(), kind: spec.kinds.clone() };
        for (a, b) in &spec.eqs {
            if !o.unify(a, b) {
                out.inconclusive("oracle disagrees on prior unifications (C14's subject)");
                return;
            }
        }
        for (a, b) in &spec.ceqs {
            o.unify_c(&C::Var(*a), &C::Var(*b));
        }
        let v1 = value_of(&spec, &b1.vars);
        let canon1 = b1.table.canonicalize(i, v1.clone());
        let c1 = canon1.quantified.clone();
        // (A) first-occurrence numbering, no stray variables, binder kind/universe = class info
        let mut occ = Occ { order: vec![], bad: None, universes: vec![] };
        let _ = c1.value.visit_with(&mut occ, DebruijnIndex::INNERMOST);
        if let Some(b) = occ.bad {
            out.violation(None, format!("canonical value is malformed: {}", b), d(&format!("{:?}", c1)));
            return;
        }
        let expect: Vec<usize> = (0..c1.binders.len(i)).collect();
        if occ.order != expect {
            out.violation(None, format!("bound variables are not numbered by first occurrence: order of first occurrences {:?}, {} binders", occ.order, c1.binders.len(i)), d(&format!("{:?}", c1)));
            return;
        }
        for (idx, (fv, bk)) in canon1.free_vars.iter().zip(c1.binders.iter(i)).enumerate() {
            let iv: InferenceVar = (*fv.skip_kind()).into();
            let mine = match b1.vars.iter().position(|(v, _)| *v == iv) {
                Some(m) => m,
                None => {
                    out.count("binder-for-internal-variable(not judged)");
                    continue;
                }
            };
            let root = o.find(mine);
            let (ek, eu) = (o.kind[root], o.uni[root]);
            let kind_ok = match (&bk.kind, ek) {
                (VariableKind::Ty(TyVariableKind::General), K::Gen) => true,
                (VariableKind::Ty(TyVariableKind::Integer), K::Int) => true,
                (VariableKind::Ty(TyVariableKind::Float), K::Float) => true,
                (VariableKind::Lifetime, K::Lt) => true,
                (VariableKind::Const(_), K::Const) => true,
                _ => false,
            };
            // universes of integer/float unknowns are semantically irrelevant (chalk does not demote them)
            let uni_ok = matches!(ek, K::Int | K::Float) || bk.skip_kind().counter == eu;
            if !kind_ok || !uni_ok {
                out.violation(None, format!("binder {} is recorded as {:?} in universe {} but the unknown's class has kind {:?} and universe {}", idx, bk.kind, bk.skip_kind().counter, ek, eu), d(&format!("{:?}", c1)));
                return;
            }
        }
        out.count("numbering+binders-checked");
        // (B) renaming: permuted creation order and unification order give the same canonical form
        let mut perm = ident.clone();
        r.shuffle(&mut perm);
        let mut eqo = eq_ident.clone();
        r.shuffle(&mut eqo);
        let mut b2 = build(&spec, &perm, &eqo);
        if b2.ok {
            let c2 = b2.table.canonicalize(i, value_of(&spec, &b2.vars)).quantified;
            if norm(&c2) != norm(&c1) {
                // Only the permuted *creation* order is a renaming in the statement's sense. A different unification order
                // may legitimately resolve an unknown to a different (equivalent modulo region constraints) value: a
                // placeholder lifetime that one order keeps is replaced by a fresh region variable in the other, when the
                // unknown it flows into lives in a smaller universe. So the verdict is taken with the original order.
                let mut b3 = build(&spec, &perm, &eq_ident);
                let same_with_original_order = b3.ok && norm(&b3.table.canonicalize(i, value_of(&spec, &b3.vars)).quantified) == norm(&c1);
                if !same_with_original_order {
                    out.violation(None, "a consistent renaming of the unknowns (permuted creation order) changed the canonical form".to_string(), d(&format!("first={:?}\nsecond={:?}\nperm={:?} eq_order={:?}", c1, c2, perm, eqo)));
                    return;
                }
                out.count("unification-order-changes-resolved-value(not a renaming; not judged)");
            } else {
                out.count("renaming-gives-same-form");
            }
        } else {
            out.count("permuted-unification-order-failed(C14/C15's subject)");
        }
        // (C) non-renamings give a different canonical form
        if !c1.binders.is_empty(i) {
            let mut s2 = spec.clone();
            // pick an unbound singleton class variable that occurs in the value
            let occurring: Vec<usize> = canon1.free_vars.iter().filter_map(|fv| b1.vars.iter().position(|(v, _)| *v == InferenceVar::from(*fv.skip_kind()))).collect();
            let singles: Vec<usize> = occurring.iter().cloned().filter(|&v| (0..nv).filter(|&w| o.find(w) == o.find(v)).count() == 1 && !o.bind.contains_key(&o.find(v))).collect();
            if let Some(&v) = singles.first() {
                let what;
                match r.below(3) {
                    0 if spec.kinds[v] == K::Gen => {
                        s2.kinds[v] = K::Int;
                        what = "kind General -> Integer";
                    }
                    1 if singles.len() >= 2 && spec.kinds[singles[0]] == spec.kinds[singles[1]] && matches!(spec.kinds[v], K::Gen | K::Const) && spec.unis[singles[0]] == spec.unis[singles[1]] => {
                        if spec.kinds[v] == K::Const {
                            s2.ceqs.push((singles[0], singles[1]));
                        } else {
                            s2.eqs.push((T::Var(singles[0]), T::Var(singles[1])));
                        }
                        what = "two distinct unknowns merged";
                    }
                    _ if !matches!(spec.kinds[v], K::Int | K::Float) => {
                        s2.unis[v] = (spec.unis[v] + 1) % NUNI;
                        what = "universe changed";
                    }
                    _ => {
                        what = "";
                    }
                }
                if !what.is_empty() {
                    let eq2: Vec<usize> = (0..s2.eqs.len() + s2.ceqs.len()).collect();
                    let mut b3 = build(&s2, &ident, &eq2);
                    // does the oracle expect the class of `v` to look different at all? (a larger universe can be
                    // absorbed by a demotion through another binding)
                    let mut o3 = O { cbind: BTreeMap::new(), bind: BTreeMap::new(), parent: (0..nv).collect(), uni: s2.unis.clone(), kind: s2.kinds.clone() };
                    let mut o3_ok = true;
                    for (a, b) in &s2.eqs {
                        o3_ok &= o3.unify(a, b);
                    }
                    for (a, b) in &s2.ceqs {
                        o3_ok &= o3.unify_c(&C::Var(*a), &C::Var(*b));
                    }
                    let differs = o3_ok && (what == "two distinct unknowns merged" || (o3.kind[o3.find(v)], o3.uni[o3.find(v)]) != (o.kind[o.find(v)], o.uni[o.find(v)]));
                    if b3.ok && differs {
                        let c3 = b3.table.canonicalize(i, value_of(&s2, &b3.vars)).quantified;
                        // a universe change can be absorbed when the variable cannot see fewer/more placeholders that
                        // matter — but the recorded universe must still differ
                        if norm(&c3) == norm(&c1) {
                            out.violation(None, format!("a non-renaming change ({} of unknown {}) left the canonical form unchanged", what, v), d(&format!("{:?}", c1)));
                            return;
                        }
                        out.count(&format!("non-renaming-gives-different-form:{}", what));
                    }
                }
            }
        }
        // (D) instantiate + canonicalize gives it back
        {
            let mut t: InferenceTable<I> = InferenceTable::new();
            for _ in 1..NUNI {
                t.new_universe();
            }
            let inst = t.instantiate_canonical(i, c1.clone());
            let back = t.canonicalize(i, inst).quantified;
            if back != c1 {
                out.violation(None, "instantiating a canonical form and canonicalizing again does not give it back".to_string(), d(&format!("orig={:?}\nback={:?}", c1, back)));
                return;
            }
            out.count("instantiate-canonicalize-roundtrip");
        }
        // (E) universe compression: monotone, dense, undoable
        {
            let uc = InferenceTable::u_canonicalize(i, &c1);
            let mut before: Vec<usize> = occ.universes.clone();
            before.extend(c1.binders.iter(i).map(|b| b.skip_kind().counter));
            before.push(0);
            before.sort();
            before.dedup();
            for w in before.windows(2) {
                let (a, b) = (uc.universes.map_universe_to_canonical(UniverseIndex { counter: w[0] }), uc.universes.map_universe_to_canonical(UniverseIndex { counter: w[1] }));
                match (a, b) {
                    (Some(a), Some(b)) if a.counter < b.counter => {}
                    _ => {
                        out.violation(None, format!("universe compression does not keep the relative order of universes {} and {} ({:?}, {:?})", w[0], w[1], a, b), d(&format!("{:?}", c1)));
                        return;
                    }
                }
            }
            if uc.quantified.universes != before.len() {
                out.violation(None, format!("compressed query claims {} universes but {} distinct universes occur", uc.quantified.universes, before.len()), d(&format!("{:?}", c1)));
                return;
            }
            let mut occ2 = Occ { order: vec![], bad: None, universes: vec![] };
            let _ = uc.quantified.canonical.value.visit_with(&mut occ2, DebruijnIndex::INNERMOST);
            let max_after = occ2.universes.iter().cloned().chain(uc.quantified.canonical.binders.iter(i).map(|b| b.skip_kind().counter)).max().unwrap_or(0);
            if max_after >= uc.quantified.universes {
                out.violation(None, format!("compressed query mentions universe {} but claims only {} universes", max_after, uc.quantified.universes), d(&format!("{:?}", uc.quantified)));
                return;
            }
            let back = uc.universes.map_from_canonical(i, &uc.quantified.canonical);
            if back != c1 {
                out.violation(None, "undoing universe compression does not give the original canonical form back".to_string(), d(&format!("orig={:?}\ncompressed={:?}\nback={:?}", c1, uc.quantified, back)));
                return;
            }
            out.count("ucanonicalize-monotone+roundtrip");
            if before.len() >= 3 && before.windows(2).any(|w| w[1] - w[0] > 1) {
                out.count("nontrivial:compression-with-gaps");
            }
        }
        // (F) invert: refuses free unknowns, otherwise one fresh unknown per distinct placeholder
        {
            let has_free = !c1.binders.is_empty(i);
            let mut t2 = b1.table.clone();
            let inv = t2.invert(i, v1.clone());
            match (has_free, inv) {
                (true, Some(_)) => {
                    out.violation(None, "invert accepted a value with free unknowns".to_string(), d(&format!("{:?}", v1)));
                    return;
                }
                (false, None) => {
                    out.violation(None, "invert refused a value without free unknowns".to_string(), d(&format!("{:?}", v1)));
                    return;
                }
                (false, Some(iv)) => {
                    let ci = t2.canonicalize(i, iv).quantified;
                    let mut occ3 = Occ { order: vec![], bad: None, universes: vec![] };
                    let _ = ci.value.visit_with(&mut occ3, DebruijnIndex::INNERMOST);
                    if !occ3.universes.is_empty() {
                        out.violation(None, "invert left a placeholder in place".to_string(), d(&format!("{:?}", ci)));
                        return;
                    }
                    out.count("invert:placeholders-to-unknowns");
                }
                (true, None) => out.count("invert:refused-free-unknowns"),
            }
        }
        out.nt(&format!("{:?}", spec));
    }
}
