//! C19 – coherence checking is total and its accepted priorities are consistent.
use crate::case::{CaseOut, Ctx, Tier};
use crate::drive::*;
use crate::json::J;
use crate::model::*;
use crate::rng::Rng;
use chalk_integration::db::ChalkDatabase;
use chalk_integration::query::LoweringDatabase;
use std::collections::BTreeMap;
use std::panic::{catch_unwind, AssertUnwindSafe};

pub fn cases(t: Tier) -> u64 {
    match t {
        Tier::Quick => 800,
        Tier::Thorough => 8000,
    }
}

fn gen_header_ty(r: &mut Rng, nv: &mut usize, d: usize) -> MTy {
    match r.below(if d == 0 { 5 } else { 9 }) {
        0 | 1 => {
            // impl parameter (reuse an existing one half of the time: Pair<T, T>)
            if *nv > 0 && r.chance(50) {
                MTy::Var(r.below(*nv))
            } else {
                *nv += 1;
                MTy::Var(*nv - 1)
            }
        }
        2 => MTy::nullary("A"),
        3 => MTy::nullary("B"),
        4 => MTy::nullary("C"),
        5 | 6 => MTy::app("Vec", vec![gen_header_ty(r, nv, d - 1)]),
        _ => MTy::app("Pair", vec![gen_header_ty(r, nv, d - 1), gen_header_ty(r, nv, d - 1)]),
    }
}

pub fn gen_coherence(r: &mut Rng) -> MProgram {
    let mut p = MProgram::default();
    for n in ["A", "B", "C"] {
        p.structs.push(MStruct { name: n.into(), ..Default::default() });
    }
    p.structs.push(MStruct { name: "Vec".into(), nparams: 1, ..Default::default() });
    p.structs.push(MStruct { name: "Pair".into(), nparams: 2, ..Default::default() });
    // a guard trait for where-clauses
    p.traits.push(MTrait { name: "G".into(), ..Default::default() });
    for c in ["A", "B"] {
        if r.chance(50) {
            p.impls.push(MImpl { head: MPred::new("G", vec![MTy::nullary(c)]), positive: true, ..Default::default() });
        }
    }
    if r.chance(30) {
        p.impls.push(MImpl { nvars: 1, head: MPred::new("G", vec![MTy::app("Vec", vec![MTy::Var(0)])]), wheres: vec![MPred::new("G", vec![MTy::Var(0)])], positive: true, ..Default::default() });
    }
    let nt = 1 + r.below(2);
    for ti in 0..nt {
        let nparams = if r.chance(25) { 1 } else { 0 };
        let marker = r.chance(10);
        p.traits.push(MTrait { name: format!("T{}", ti), nparams, marker, ..Default::default() });
        let n = 2 + r.below(4);
        let mut prev: Vec<MImpl> = vec![];
        if r.chance(40) && nparams == 0 {
            // a specialization chain of 3-5 impls, each instantiating a parameter of the previous header, declared in
            // a shuffled order: T, Vec<T>, Vec<Vec<T>>, Vec<Vec<A>> ...
            let mut chain: Vec<MImpl> = vec![];
            let mut cur = MTy::Var(0);
            let len = 3 + r.below(3);
            for step in 0..len {
                let mut used = std::collections::BTreeSet::new();
                cur.vars(&mut used);
                chain.push(MImpl { nvars: used.len(), head: MPred { tr: format!("T{}", ti), args: vec![cur.clone()] }, positive: true, ..Default::default() });
                // specialise: replace the (single) variable by Vec<V> / Pair<V, A> or, at the end, by a constant
                let rep = if step + 2 >= len || used.is_empty() { MTy::nullary(*r.pick(&["A", "B"])) } else if r.chance(70) { MTy::app("Vec", vec![MTy::Var(0)]) } else { MTy::app("Pair", vec![MTy::Var(0), MTy::nullary("A")]) };
                if used.is_empty() {
                    break;
                }
                // siblings: the same general impl specialised to two different constants (mutually disjoint)
                if r.chance(50) {
                    let c = MTy::nullary(*r.pick(&["A", "B", "C"]));
                    let sib = cur.subst(&|_| c.clone());
                    if !chain.iter().any(|im| im.head.args[0] == sib) {
                        chain.push(MImpl { nvars: 0, head: MPred { tr: format!("T{}", ti), args: vec![sib] }, positive: true, ..Default::default() });
                    }
                }
                cur = cur.subst(&|_| rep.clone());
            }
            chain.dedup_by(|a, b| a.head == b.head);
            r.shuffle(&mut chain);
            for im in chain {
                prev.push(im.clone());
                p.impls.push(im);
            }
            // half of the time the chain (a tree with its siblings) is all there is for this trait: random further impls
            // nearly always overlap it without specializing, and a rejected program says nothing about priorities
            if r.chance(50) {
                continue;
            }
        }
        for _ in 0..n {
            // chains / diamonds: often a specialization or a copy of an earlier header
            let im = if !prev.is_empty() && r.chance(45) {
                let base = r.pick(&prev).clone();
                match r.below(3) {
                    0 => base.clone(), // identical impl
                    _ => {
                        // instantiate one impl parameter of the base header with something more specific
                        let mut nv = base.nvars;
                        let mut args = base.head.args.clone();
                        if base.nvars > 0 {
                            let v = r.below(base.nvars);
                            let rep = gen_header_ty(r, &mut nv, 1);
                            args = args.iter().map(|a| a.subst(&|i| if i == v { rep.clone() } else { MTy::Var(i) })).collect();
                        }
                        MImpl { nvars: nv, head: MPred { tr: base.head.tr.clone(), args }, positive: true, ..Default::default() }
                    }
                }
            } else {
                let mut nv = 0;
                let args: Vec<MTy> = (0..=nparams).map(|_| gen_header_ty(r, &mut nv, 2)).collect();
                MImpl { nvars: nv, head: MPred { tr: format!("T{}", ti), args }, positive: true, ..Default::default() }
            };
            // renumber variables densely (a substituted-away variable may leave a gap)
            let mut used = std::collections::BTreeSet::new();
            im.head.vars(&mut used);
            let used: Vec<usize> = used.into_iter().collect();
            let ren = |i: usize| MTy::Var(used.iter().position(|&u| u == i).unwrap());
            let mut im = MImpl { nvars: used.len(), head: im.head.subst(&ren), positive: true, ..Default::default() };
            // where-clause guards on impl parameters, negative impls
            if im.nvars > 0 && r.chance(30) {
                im.wheres.push(MPred::new("G", vec![MTy::Var(r.below(im.nvars))]));
            }
            if r.chance(8) {
                im.positive = false;
            }
            prev.push(im.clone());
            p.impls.push(im);
        }
    }
    p
}

pub fn run(ctx: &Ctx, out: &mut CaseOut) {
    let mut r = Rng::for_case(ctx.prop, ctx.seed, ctx.k);
    let prog = gen_coherence(&mut r);
    let text = program_text(&prog);
    let uni = build_universe(&prog, &[], 3);
    out.sample = Some(J::obj().set("program", text.as_str()));
    for choice in both() {
        let res = catch_unwind(AssertUnwindSafe(|| {
            let db = ChalkDatabase::with(&text, choice);
            match db.program_ir() {
                Err(e) => Err(format!("does not lower: {}", e)),
                Ok(p) => Ok((p, db.coherence().map_err(|e| e.to_string()))),
            }
        }));
        out.evals += 1;
        let d = || J::obj().set("program", text.as_str()).set("solver", solver_desc(&choice));
        let (program, coh) = match res {
            Err(e) => {
                out.violation(None, format!("coherence checking panicked: {} at {}", crate::case::truncate(&crate::case::panic_msg(&e), 160), last_panic_loc()), d());
                return;
            }
            Ok(Err(e)) => {
                out.inconclusive(&format!("generated program {}", crate::case::truncate(&e, 60)));
                return;
            }
            Ok(Ok(x)) => x,
        };
        let prios = match coh {
            Err(e) => {
                out.count(&format!("rejected:{}", if e.contains("verlap") { "overlapping-impls" } else { "other-error" }));
                continue;
            }
            Ok(m) => m,
        };
        out.count("accepted");
        // impl ids in declaration order correspond to the model's impls
        let ids: Vec<_> = program.impl_data.keys().cloned().collect();
        if ids.len() != prog.impls.len() {
            out.inconclusive("impl count mismatch between model and lowered program");
            continue;
        }
        let mut sem = Sem::new(&prog, 6);
        for tr in prog.traits.iter().filter(|t| t.name.starts_with('T')) {
            let tid = program.trait_ids.iter().find(|(n, _)| n.to_string() == tr.name).map(|(_, id)| *id).unwrap();
            let pr = match prios.get(&tid) {
                Some(p) => p,
                None => continue,
            };
            let impls: Vec<usize> = (0..prog.impls.len()).filter(|&i| prog.impls[i].head.tr == tr.name).collect();
            // applicability sets over the bounded universe of ground trait references
            let arity = 1 + tr.nparams;
            let mut refs: Vec<Vec<MTy>> = vec![vec![]];
            for _ in 0..arity {
                refs = refs.into_iter().flat_map(|p| uni.terms.iter().map(move |t| { let mut q = p.clone(); q.push(t.clone()); q })).collect();
            }
            let mut applies: BTreeMap<usize, Vec<bool>> = BTreeMap::new();
            for &i in &impls {
                let im = &prog.impls[i];
                let v: Vec<bool> = refs
                    .iter()
                    .map(|rf| {
                        let mut b = BTreeMap::new();
                        im.head.args.iter().zip(rf).all(|(p, t)| match_ty(p, t, &mut b)) && im.wheres.iter().all(|w| sem.pred(&[], &w.subst(&|k| b.get(&k).cloned().unwrap())) == Tri::True)
                    })
                    .collect();
                applies.insert(i, v);
            }
            if tr.marker {
                out.count("marker-trait(overlap allowed; only totality checked)");
                continue;
            }
            for (x, &i) in impls.iter().enumerate() {
                for &j in &impls[x + 1..] {
                    if !prog.impls[i].positive && !prog.impls[j].positive {
                        // two negative impls promise the same thing; chalk (like rustc) lets them overlap freely
                        out.count("pair:both-negative(overlap allowed)");
                        continue;
                    }
                    let (ai, aj) = (&applies[&i], &applies[&j]);
                    let common = ai.iter().zip(aj).position(|(a, b)| *a && *b);
                    // priorities exist for the impls coherence looked at; an impl without one is not judged
                    let get = |id| catch_unwind(AssertUnwindSafe(|| pr.priority(id))).ok();
                    let (pi, pj) = match (get(ids[i]), get(ids[j])) {
                        (Some(a), Some(b)) => (a, b),
                        _ => {
                            out.count("pair:impl-without-priority(not judged)");
                            continue;
                        }
                    };
                    let dd = |extra: String| d().set("trait", tr.name.as_str()).set("impl_a", impl_text(&prog.impls[i]).trim()).set("impl_b", impl_text(&prog.impls[j]).trim()).set("priority_a", format!("{:?}", pi)).set("priority_b", format!("{:?}", pj)).set("note", extra);
                    match common {
                        None => {
                            out.count("pair:disjoint-on-universe");
                        }
                        Some(c) => {
                            let witness = format!("both apply to {}", pred_text(&MPred { tr: tr.name.clone(), args: refs[c].clone() }));
                            if pi == pj {
                                out.violation(None, format!("{}: accepted two impls of `{}` with equal priority that apply to the same trait reference", solver_name(&choice), tr.name), dd(witness));
                                return;
                            }
                            let i_sub_j = ai.iter().zip(aj).all(|(a, b)| !*a || *b);
                            let j_sub_i = ai.iter().zip(aj).all(|(a, b)| !*b || *a);
                            if i_sub_j && !j_sub_i && !(pi > pj) {
                                out.violation(None, format!("{}: an impl that applies to a strict subset of another impl's trait references does not have the higher priority", solver_name(&choice)), dd(witness));
                                return;
                            }
                            if j_sub_i && !i_sub_j && !(pj > pi) {
                                out.violation(None, format!("{}: an impl that applies to a strict subset of another impl's trait references does not have the higher priority", solver_name(&choice)), dd(witness));
                                return;
                            }
                            if !i_sub_j && !j_sub_i {
                                out.violation(None, format!("{}: accepted two partially overlapping impls (neither specializes the other)", solver_name(&choice)), dd(witness));
                                return;
                            }
                            out.count("pair:overlapping-with-consistent-priorities");
                            out.nt(&format!("{}|{}|{}|{}", text, i, j, solver_name(&choice)));
                        }
                    }
                }
            }
        }
        out.nt(&format!("{}|accepted|{}", text, solver_name(&choice)));
    }
}
