//! C01 – a definite answer from either solver matches the program's logical meaning.
use crate::case::{CaseOut, Ctx, Tier};
use crate::common::*;
use crate::drive::*;
use crate::gen::*;
use crate::json::J;
use crate::judge;
use crate::model::*;
use crate::rng::Rng;

pub fn cases(t: Tier) -> u64 {
    match t {
        Tier::Quick => 400,
        Tier::Thorough => 6000,
    }
}

pub const BUDGET: u64 = 300_000;

/// Known-answer programs over every built-in type constructor (see zoo.rs).
pub fn run_zoo(out: &mut CaseOut, r: &mut Rng, prop: &str) {
    use crate::zoo::Expect;
    use chalk_solve::ext::GoalExt;
    use chalk_solve::{Guidance, Solution};
    let interner = chalk_integration::interner::ChalkIr;
    let z = crate::zoo::gen_zoo(r);
    for choice in both() {
        let l = match load(&z.text, choice, false) {
            Ok(l) => l,
            Err(e) => {
                out.inconclusive(&format!("zoo program failed to lower: {}", crate::case::truncate(&e, 80)));
                return;
            }
        };
        with_program(&l, || {
            for (g, e) in &z.goals {
                let goal = match lower_goal_text(&l, g) {
                    Ok(g) => g,
                    Err(e) => {
                        out.inconclusive(&format!("zoo goal failed to lower: {}", crate::case::truncate(&e, 80)));
                        continue;
                    }
                };
                let peeled = goal.into_peeled_goal(interner);
                let db = FaultDb::new(&*l.program, solver_name(&choice));
                db.budget.set(BUDGET);
                let mut s = choice.into_solver();
                let a = match solve(&mut *s, &db, &peeled) {
                    Outcome::Answer(a) => a,
                    _ => {
                        out.count("zoo:solve-panicked-or-over-budget(see C09)");
                        continue;
                    }
                };
                out.evals += 1;
                let shown = disp(&a);
                let d = || detail(&z.text, g, &choice).set("answer", shown.as_str()).set("expected", format!("{:?}", e));
                match (e, &a) {
                    (Expect::No, Some(Solution::Unique(_))) => out.violation(None, format!("{} answered `{}` for `{}`, which has no solution (the only facts are the two ground impls)", solver_name(&choice), shown, g), d()),
                    (Expect::No, None) => {
                        out.count("zoo:no-solution-confirmed");
                        out.nt(&format!("{}|{}|{}", z.text, g, solver_name(&choice)));
                    }
                    (Expect::No, Some(_)) => {
                        if prop == "C02" && !g.starts_with("exists") && z.max_nodes <= 6 {
                            out.violation(None, format!("{} answered `{}` for the closed goal `{}`, which is false", solver_name(&choice), shown, g), d());
                        } else {
                            out.count("zoo:ambiguous-where-no-solution(not a definite answer)");
                            if std::env::var("ZOO_DEBUG").is_ok() { eprintln!("AMBIG-N {} | {} | {}\n{}", solver_name(&choice), g, shown, z.text); }
                        }
                    }
                    (Expect::Unique(_), None) => out.violation(None, format!("{} answered `No possible solution` for `{}`, which has exactly one solution", solver_name(&choice), g), d()),
                    (Expect::Unique(gt), Some(Solution::Unique(c))) => {
                        let ground = match lower_goal_text(&l, gt) {
                            Ok(g) => g.into_peeled_goal(interner),
                            Err(_) => {
                                out.inconclusive("zoo ground goal failed to lower");
                                continue;
                            }
                        };
                        let applied = c.value.subst.apply(peeled.canonical.value.clone(), interner);
                        if !c.binders.is_empty(interner) || applied != ground.canonical.value {
                            out.violation(None, format!("{} answered `{}` for `{}`, but the only solution is `{}`", solver_name(&choice), shown, g, gt), d());
                        } else {
                            out.count(&format!("zoo:unique-confirmed:{}", solver_name(&choice)));
                            out.nt(&format!("{}|{}|{}", z.text, g, solver_name(&choice)));
                        }
                    }
                    (Expect::Unique(_), Some(Solution::Ambig(Guidance::Definite(_)))) => out.count("zoo:definite-guidance(not compared)"),
                    (Expect::Unique(_), Some(_)) => {
                        if prop == "C02" && !g.starts_with("exists") && z.max_nodes <= 6 {
                            out.violation(None, format!("{} answered `{}` for the closed goal `{}`, which is true", solver_name(&choice), shown, g), d());
                        } else {
                            out.count("zoo:ambiguous-where-unique(not a definite answer)");
                            if std::env::var("ZOO_DEBUG").is_ok() { eprintln!("AMBIG-U {} | {} | {}\n{}", solver_name(&choice), g, shown, z.text); }
                        }
                    }
                }
            }
        });
    }
    if out.sample.is_none() {
        out.sample = Some(J::obj().set("program", z.text.as_str()).set("goal", z.goals[0].0.as_str()));
    }
}

pub fn run(ctx: &Ctx, out: &mut CaseOut) {
    let mut r = Rng::for_case(ctx.prop, ctx.seed, ctx.k);
    if ctx.k % 9 == 7 {
        out.count("fragment:constructor-zoo");
        run_zoo(out, &mut r, "C01");
        return;
    }
    // fragment mix: 40% plain inductive non-increasing, 25% increasing, 35% with coinductive traits
    let mode = ctx.k % 20;
    let cfg = if mode < 8 {
        GenCfg::default()
    } else if mode < 13 {
        GenCfg { increasing_pct: 40, ..Default::default() }
    } else {
        GenCfg { coinductive_pct: 50, increasing_pct: if mode % 2 == 0 { 25 } else { 0 }, ..Default::default() }
    };
    // every 6th case: the propositional fragment (dense recursion over one struct)
    let propositional = ctx.k % 6 == 5;
    let prop_coinductive = (ctx.k / 6) % 3 == 2;
    let prog = if propositional { gen_propositional(&mut r, prop_coinductive) } else { gen_program(&mut r, &cfg) };
    let prop_goals = if propositional { gen_propositional_goals(&mut r, &prog, 10, !prop_coinductive) } else { vec![] };
    // every 7th case: the multi-answer fragment
    let multi = ctx.k % 7 == 6 && !propositional;
    let (prog, multi_goals) = if multi {
        let (p, g) = gen_multi_or_graph(&mut r);
        (p, g)
    } else {
        (prog, vec![])
    };
    let text = program_text(&prog);
    let loaded: Vec<_> = both().iter().filter_map(|c| load(&text, *c, false).ok().map(|l| (*c, l))).collect();
    if loaded.len() != 2 {
        out.inconclusive("generated program failed to lower");
        return;
    }
    let s = if ctx.tier == Tier::Thorough && ctx.k % 4 == 0 { 4 } else { 3 };
    let ngoals = 10;
    for gi in 0..ngoals {
        let gcfg = GoalCfg { closed_only: gi % 3 == 0, allow_not: true, allow_eq: true, need_exists: gi % 3 == 1 };
        let (goal, exs) = if propositional {
            (prop_goals[gi].clone(), vec![])
        } else if multi {
            multi_goals[gi % multi_goals.len()].clone()
        } else {
            gen_goal(&mut r, &prog, &gcfg)
        };
        let gtext = goal_text(&goal);
        let mut phs = vec![];
        collect_phs(&goal, &mut phs);
        let mut ex = vec![];
        collect_exists(&goal, &mut ex);
        let uni = build_universe(&prog, &phs, s);
        let mut sem = Sem::new(&prog, s + 2);
        for (choice, l) in &loaded {
            let rec = with_program(l, || {
                let peeled = match lower_and_peel(l, &gtext, &exs) {
                    Ok(p) => p,
                    Err(e) => return Err(e),
                };
                Ok(solve_translated(l, *choice, &peeled, BUDGET))
            });
            let rec = match rec {
                Ok(r) => r,
                Err(e) => {
                    out.inconclusive(&format!("goal failed to lower: {}", crate::case::truncate(&e, 60)));
                    continue;
                }
            };
            out.evals += 1;
            out.gauge("max_callbacks", rec.calls);
            let ans = match &rec.ans {
                Ok(a) => a,
                Err(_) => {
                    note_non_answer(out, &rec);
                    continue;
                }
            };
            out.count(&format!("answer:{}:{}", solver_name(choice), ans.kind()));
            match judge::check(&mut sem, &uni, &goal, &ex, ans) {
                Ok(v) => {
                    if v.sound_checked {
                        out.count("judged:soundness-of-unique");
                    }
                    if v.complete_checked {
                        out.count("judged:completeness/none");
                    }
                    let nontrivial = match ans {
                        MAnswer::Unique(m, _) => v.sound_checked && (!m.is_empty() || ex.is_empty()),
                        MAnswer::None => v.complete_checked,
                        MAnswer::Definite(..) => v.complete_checked,
                        _ => false,
                    };
                    if nontrivial {
                        out.count(&format!("nontrivial:{}", ans.kind()));
                        out.nt(&format!("{}|{}|{}|{}", text, gtext, solver_name(choice), rec.shown));
                    }
                }
                Err(e) => {
                    let sig = if solver_name(choice) == "slg" && rec.nonground_coinductive && matches!(ans, MAnswer::Unique(..) | MAnswer::Definite(..)) && e.contains("definitely false instance") {
                        Some("slg:coinductive-nonground:unsound-definite")
                    } else if solver_name(choice) == "slg" && e.contains("is not an instance of the definite answer") && nonlinear(ans) {
                        // F20: guidance with a repeated variable is declared final too early
                        Some("slg:may-invalidate-nonlinear-guidance")
                    } else if rec.stale_delayed_table && matches!(ans, MAnswer::None) {
                        Some("slg:stale-delayed-answer-table")
                    } else {
                        None
                    };
                    out.violation(sig, format!("{} answered `{}`: {}", solver_name(choice), rec.shown, e), detail(&text, &gtext, choice).set("answer", rec.shown.as_str()).set("model_verdict", e.as_str()));
                }
            }
        }
        if gi == 0 && out.sample.is_none() {
            out.sample = Some(J::obj().set("program", text.as_str()).set("goal", gtext.as_str()));
        }
    }
}

/// Does the definite substitution mention one of its own variables more than once?
fn nonlinear(a: &MAnswer) -> bool {
    fn go(t: &MTy, seen: &mut std::collections::BTreeSet<usize>, rep: &mut bool) {
        match t {
            MTy::Var(v) => {
                if !seen.insert(*v) {
                    *rep = true;
                }
            }
            MTy::App(_, a) => a.iter().for_each(|x| go(x, seen, rep)),
            _ => {}
        }
    }
    match a {
        MAnswer::Definite(m, _) => {
            let mut seen = Default::default();
            let mut rep = false;
            m.values().for_each(|t| go(t, &mut seen, &mut rep));
            rep
        }
        _ => false,
    }
}
