//! C23 – the program printed by the recording database wrapper reproduces the solver's answers.
use crate::case::{CaseOut, Ctx, Tier};
use crate::corpus;
use crate::drive::*;
use crate::json::J;
use crate::props::workload::workload;
use crate::rng::Rng;
use chalk_solve::logging_db::LoggingRustIrDatabase;
use std::panic::{catch_unwind, AssertUnwindSafe};

pub fn cases(t: Tier) -> u64 {
    let n = corpus_len() as u64;
    n + match t {
        Tier::Quick => 320,
        Tier::Thorough => 6000,
    }
}

thread_local! {
    static CORPUS: Vec<corpus::CorpusEntry> = corpus::load_corpus();
}
fn corpus_len() -> usize {
    CORPUS.with(|c| c.len())
}

pub fn run(ctx: &Ctx, out: &mut CaseOut) {
    let nc = corpus_len() as u64;
    let mut r = Rng::for_case(ctx.prop, ctx.seed, ctx.k);
    let (text, goals, origin): (String, Vec<String>, String) = if ctx.k < nc {
        let e = CORPUS.with(|c| c[ctx.k as usize].clone());
        if e.goals.is_empty() || !e.file.contains("/tests/test/") {
            out.count("corpus-entry-without-goals(skipped)");
            return;
        }
        (e.program, e.goals.into_iter().take(6).collect(), e.file)
    } else {
        let w = workload(&mut r, ctx.k - nc, 1, 6);
        let n = 1 + r.below(6);
        (w.text.clone(), w.goals.iter().take(n).map(|g| g.0.clone()).collect(), format!("generated:{}", w.fragment))
    };
    let print_between = ctx.k % 2 == 0;
    out.count(if print_between { "history:printed-after-every-goal" } else { "history:printed-once-at-the-end" });
    let kind = if origin.starts_with("generated:") { origin.clone() } else { "corpus".to_string() };
    for choice in both() {
        let l = match load(&text, choice, false) {
            Ok(l) => l,
            Err(_) => {
                out.count("program-did-not-lower(skipped)");
                return;
            }
        };
        if !l.program.closure_ids.is_empty() || !l.program.coroutine_ids.is_empty() || !l.program.foreign_ty_ids.is_empty() || !l.program.custom_clauses.is_empty() {
            out.count("has-items-the-writer-does-not-cover(skipped)");
            return;
        }
        if !crate::props::c22::roundtrip_ok(&l.program) {
            // the writer itself is lossy for this program (a C22 finding); the recording check would only repeat it
            out.count("program-not-faithfully-printable(C22's subject; skipped)");
            return;
        }
        // the recording wrapper sits on top of a FaultDb so that runaway solves are cut off by the usual guards and the
        // harness knows which item ids crossed the database boundary
        let mut fdb = FaultDb::new(&*l.program, solver_name(&choice));
        fdb.track_served = true;
        fdb.budget.set(300_000);
        let wrapped = LoggingRustIrDatabase::<_, FaultDb<'_>, &FaultDb<'_>>::new(&fdb);
        // solve the goals through the recording wrapper (one solver instance, in order)
        let mut s = choice.into_solver();
        let answers: Vec<Option<String>> = with_program(&l, || {
            goals
                .iter()
                .map(|g| {
                    let goal = lower_goal_text(&l, g).ok()?;
                    use chalk_solve::ext::GoalExt;
                    let peeled = goal.into_peeled_goal(chalk_integration::interner::ChalkIr);
                    fdb.calls.set(0);
                    fdb.arm();
                    let a = catch_unwind(AssertUnwindSafe(|| disp(&s.solve(&wrapped, &peeled)))).ok();
                    if print_between {
                        // a client may print the recorded program at any time, not only at the end
                        fdb.deadline.set(None);
                        fdb.calls.set(0);
                        fdb.budget.set(u64::MAX);
                        // (what the printer itself asks the database is not "served to the solver")
                        let snap = fdb.served.borrow().clone();
                        let _ = catch_unwind(AssertUnwindSafe(|| wrapped.to_string()));
                        *fdb.served.borrow_mut() = snap;
                        fdb.budget.set(300_000);
                    }
                    a
                })
                .collect()
        });
        if answers.iter().all(|a| a.is_none()) {
            out.count("no-goal-solved(skipped)");
            continue;
        }
        fdb.deadline.set(None);
        fdb.calls.set(0);
        fdb.budget.set(u64::MAX);
        let served = fdb.served.borrow().clone();
        let logged = match catch_unwind(AssertUnwindSafe(|| with_program(&l, || wrapped.to_string()))) {
            Ok(t) => t,
            Err(e) => {
                out.violation(None, format!("printing the recorded program panicked: {}", crate::case::truncate(&crate::case::panic_msg(&e), 160)), J::obj().set("origin", origin.as_str()).set("program", text.as_str()).set("goals", J::Arr(goals.iter().map(|g| J::Str(g.clone())).collect())));
                return;
            }
        };
        out.evals += 1;
        let d = |extra: Vec<(&str, String)>| {
            let mut j = J::obj().set("origin", origin.as_str()).set("solver", solver_desc(&choice)).set("program", crate::case::truncate(&text, 5000)).set("logged_program", crate::case::truncate(&logged, 5000)).set("goals", J::Arr(goals.iter().map(|g| J::Str(g.clone())).collect()));
            for (k, v) in extra {
                j.put(k, v);
            }
            j
        };
        // items of the original program that never crossed the database boundary: no recorder could know their contents
        let mut never_served: Vec<String> = vec![];
        for (id, k) in &l.program.adt_kinds {
            if !served.contains(&format!("adt:{}", id.0.index)) {
                never_served.push(format!("struct/enum {}", k.name));
            }
        }
        for (id, k) in &l.program.trait_kinds {
            if !served.contains(&format!("trait:{}", id.0.index)) {
                never_served.push(format!("trait {}", k.name));
            }
        }
        for (id, d) in &l.program.impl_data {
            if !served.contains(&format!("impl:{}", id.0.index)) {
                never_served.push(format!("impl #{} of trait {}", id.0.index, l.program.trait_kinds[&d.trait_id()].name));
            }
        }
        let l2 = match load(&logged, choice, false) {
            Ok(l) => l,
            Err(e) => {
                out.violation(None, format!("the logged program does not parse/lower: {}", crate::case::truncate(&e, 200)), d(vec![]));
                return;
            }
        };
        out.count(&format!("{}:logged-program-lowers", kind));
        // F11 evidence for a solve of `g` on the *original* program (fresh solver, no wrapper)
        let orig_stale = |g: &str| -> bool {
            with_program(&l, || match lower_goal_text(&l, g) {
                Ok(goal) => {
                    use chalk_solve::ext::GoalExt;
                    crate::common::fresh_slg_stale(&l, &goal.into_peeled_goal(chalk_integration::interner::ChalkIr))
                }
                Err(_) => false,
            })
        };
        // hook H5 evidence after solving goals[0..=k] in order on one concrete SLG solver for program `lp`
        let seq_subsumed = |lp: &Loaded, k: usize| -> bool {
            with_program(lp, || {
                let mut s = chalk_engine::solve::SLGSolver::<I>::new(10, None);
                for g in goals.iter().take(k + 1) {
                    if let Ok(goal) = lower_goal_text(lp, g) {
                        use chalk_solve::ext::GoalExt;
                        let db = FaultDb::new(&*lp.program, "slg");
                        db.budget.set(300_000);
                        let _ = solve(&mut s, &db, &goal.into_peeled_goal(chalk_integration::interner::ChalkIr));
                    }
                }
                crate::common::slg_subsumed_answers(&mut s)
            })
        };
        // F11 evidence (W before the last goal or M after it) when goals[0..=k] are solved in order on one concrete SLG solver
        let seq_stale = |lp: &Loaded, k: usize| -> bool {
            with_program(lp, || {
                let mut s = chalk_engine::solve::SLGSolver::<I>::new(10, None);
                let mut ev = false;
                for (i, g) in goals.iter().take(k + 1).enumerate() {
                    if let Ok(goal) = lower_goal_text(lp, g) {
                        use chalk_solve::ext::GoalExt;
                        let pg = goal.into_peeled_goal(chalk_integration::interner::ChalkIr);
                        if i == k {
                            ev = crate::common::slg_goal_table_stale(&mut s, &pg);
                        }
                        let db = FaultDb::new(&*lp.program, "slg");
                        db.budget.set(300_000);
                        let _ = solve(&mut s, &db, &pg);
                        if i == k {
                            ev = ev || crate::common::slg_stale_table(&mut s, &pg);
                        }
                    }
                }
                ev
            })
        };
        let gi_of = |g: &str| goals.iter().position(|x| x == g).unwrap_or(0);
        let mut s2 = choice.into_solver();
        with_program(&l2, || {
            for (g, a) in goals.iter().zip(&answers) {
                let a = match a {
                    Some(a) => a,
                    None => continue,
                };
                let goal = match lower_goal_text(&l2, g) {
                    Ok(g) => g,
                    Err(e) => {
                        // F15: an identifier of the goal names an item the solver never asked the database about
                        let missing: Option<String> = e.split('`').nth(1).map(|s| s.to_string());
                        let unserved = missing.as_ref().map_or(false, |m| never_served.iter().any(|n| n.ends_with(&format!(" {}", m)) && !n.starts_with("impl")));
                        // F31: the writer's name disambiguation renames same-named associated types of different traits
                        // (`Item` -> `Item_1`), so the goal's spelling no longer exists
                        let renamed = missing.as_ref().map_or(false, |m| ["type", "struct", "enum", "trait"].iter().any(|k| logged.contains(&format!("{} {}_", k, m))));
                        let sig = if unserved {
                            Some("logging:goal-only-name-missing")
                        } else if renamed {
                            Some("display:name-disambiguation-renames-item")
                        } else {
                            None
                        };
                        out.violation(sig, format!("the goal `{}` no longer lowers on the logged program: {}", g, crate::case::truncate(&e, 160)), d(vec![("goal", g.clone())]));
                        continue;
                    }
                };
                use chalk_solve::ext::GoalExt;
                let peeled = goal.into_peeled_goal(chalk_integration::interner::ChalkIr);
                let db = FaultDb::new(&*l2.program, solver_name(&choice));
                db.budget.set(300_000);
                match solve(&mut *s2, &db, &peeled) {
                    Outcome::Answer(b) => {
                        let b = disp(&b);
                        // Both answers above were obtained on solvers that had answered the earlier goals of the sequence. If the
                        // two programs agree when the goal is put to *fresh* solvers, the difference is an effect of what
                        // the solvers solved before (C10's subject: F11, F12, F20, F36), not of the logged program.
                        let nonground_seen = std::cell::Cell::new(false);
                        let history_only = &b != a && {
                            let fresh_on = |lp: &Loaded| -> Option<String> {
                                with_program(lp, || {
                                    let goal = lower_goal_text(lp, g).ok()?;
                                    use chalk_solve::ext::GoalExt;
                                    let pg = goal.into_peeled_goal(chalk_integration::interner::ChalkIr);
                                    let fdb = FaultDb::new(&*lp.program, solver_name(&choice));
                                    fdb.budget.set(300_000);
                                    let mut fs = choice.into_solver();
                                    let o = solve(&mut *fs, &fdb, &pg);
                                    if fdb.nonground_coinductive.get() {
                                        nonground_seen.set(true);
                                    }
                                    match o {
                                        Outcome::Answer(x) => Some(disp(&x)),
                                        _ => None,
                                    }
                                })
                            };
                            match (fresh_on(&l), fresh_on(&l2)) {
                                (Some(x), Some(y)) => x == y,
                                _ => false,
                            }
                        };
                        if history_only {
                            out.count("differs-only-on-warm-solvers(fresh solvers agree; C10's subject)");
                        } else if &b != a {
                            // F22: an item that matters for this goal never crossed the database boundary (e.g. the impl that made
                            // impl_provided_for answer `true`, or a trait that was only ever mentioned by id)
                            let toks = crate::props::c24::tokenize(g);
                            let relevant: Vec<&String> = never_served.iter().filter(|n| toks.iter().any(|t| n.ends_with(&format!(" {}", t)))).collect();
                            // F12: the logged program lists items in another order, and SLG's answer for a goal with an
                            // unconstrained unknown depends on strand order
                            let f12 = solver_name(&choice) == "slg" && ((trivial_unique(a) && b.starts_with("Ambiguous")) || (trivial_unique(&b) && a.starts_with("Ambiguous")));
                            let sig = if !relevant.is_empty() {
                                Some("logging:relevant-item-never-served")
                            } else if f12 {
                                Some("slg:trivial-answer-green-cut-order")
                            } else if solver_name(&choice) == "slg" && nonground_seen.get() {
                                // F39: a coinductive subgoal with unknowns was posed; SLG's answer then depends on clause order
                                Some("slg:coinductive-nonground:order-dependent")
                            } else if solver_name(&choice) == "slg" && ((a == "No possible solution" && b != "No possible solution" && (orig_stale(g) || seq_stale(&l, gi_of(g)))) || (b == "No possible solution" && a != "No possible solution" && (crate::common::fresh_slg_stale(&l2, &peeled) || seq_stale(&l2, gi_of(g)))) || (a.starts_with("Ambiguous") != b.starts_with("Ambiguous") && a.starts_with("Unique") != b.starts_with("Unique") && (seq_stale(&l, gi_of(g)) || seq_stale(&l2, gi_of(g))))) {
                                // F11: the two programs list items in different orders, and one of the two searches lost the answer
                                Some("slg:stale-delayed-answer-table")
                            } else if solver_name(&choice) == "slg" && crate::common::slg_order_signature(a, a.starts_with("Ambiguous") && seq_subsumed(&l, gi_of(g)), &b, b.starts_with("Ambiguous") && seq_subsumed(&l2, gi_of(g))).is_some() {
                                // F12 (through a sub-table) / F20, with hook H5 evidence from replaying the goal sequence on a
                                // concrete SLG solver for the side that answered Ambiguous
                                crate::common::slg_order_signature(a, a.starts_with("Ambiguous") && seq_subsumed(&l, gi_of(g)), &b, b.starts_with("Ambiguous") && seq_subsumed(&l2, gi_of(g)))
                            } else if solver_name(&choice) == "slg" && (crate::common::nonlinear_definite(a) || crate::common::nonlinear_definite(&b)) {
                                // F20: the logged program lists items in another order, and whether the invalidating answer
                                // arrives before the guidance became non-linear depends on that order
                                Some("slg:may-invalidate-nonlinear-guidance")
                            } else {
                                None
                            };
                            out.violation(sig, format!("{}: `{}` on the original program but `{}` on the logged program for `{}`", solver_name(&choice), a, b, g), d(vec![("goal", g.clone()), ("original_answer", a.clone()), ("logged_answer", b.clone()), ("items_never_served", format!("{:?}", never_served))]));
                        } else {
                            out.count(&format!("{}:same-answer:{}", kind, solver_name(&choice)));
                            out.nt(&format!("{}|{}|{}", logged, g, solver_name(&choice)));
                        }
                    }
                    _ => out.count("solve-on-logged-program-panicked(see C09)"),
                }
            }
        });
        if out.sample.is_none() {
            out.sample = Some(J::obj().set("origin", origin.as_str()).set("program", crate::case::truncate(&text, 1200)).set("logged_program", crate::case::truncate(&logged, 1200)).set("goals", J::Arr(goals.iter().map(|g| J::Str(g.clone())).collect())));
        }
    }
}

/// `Unique; for<..> { substitution [?0 := ^0.0, ?1 := ^0.1] }` — every unknown mapped to its own fresh variable.
fn trivial_unique(s: &str) -> bool {
    if !s.starts_with("Unique; for<") {
        return false;
    }
    let body = match (s.find('['), s.rfind(']')) {
        (Some(a), Some(b)) if a < b => &s[a + 1..b],
        _ => return false,
    };
    !body.is_empty()
        && body.split(", ").all(|e| {
            let mut it = e.split(" := ");
            match (it.next(), it.next()) {
                (Some(l), Some(r)) => l.starts_with('?') && r.starts_with("^0.") && l[1..] == r[3..],
                _ => false,
            }
        })
        && !s.contains("lifetime constraints")
}
