//! Client-boundary driver: load/lower text, peel goals while recording the variable maps, the FaultDb wrapper
//! database (environment boundary), solver runner, and translation of answers to the model's vocabulary.
use crate::case::{emit_flag, emit_flag_done, panic_msg};
use crate::model::*;
use chalk_integration::db::ChalkDatabase;
use chalk_integration::interner::ChalkIr;
use chalk_integration::lowering::lower_goal;
use chalk_integration::program::Program;
use chalk_integration::query::LoweringDatabase;
use chalk_integration::SolverChoice;
use chalk_ir::cast::Cast;
use chalk_ir::visit::{TypeVisitable, TypeVisitor};
use chalk_ir::*;
use chalk_solve::infer::InferenceTable;
use chalk_solve::rust_ir::*;
use chalk_solve::{Guidance, RustIrDatabase, Solution};
use std::cell::{Cell, RefCell};
use std::collections::BTreeMap;
use std::ops::ControlFlow;
use std::panic::{catch_unwind, AssertUnwindSafe};
use std::sync::Arc;

pub type I = ChalkIr;
pub type UGoal = UCanonical<InEnvironment<Goal<I>>>;

pub fn slg() -> SolverChoice {
    SolverChoice::slg_default()
}
pub fn rec() -> SolverChoice {
    SolverChoice::recursive_default()
}
pub fn both() -> [SolverChoice; 2] {
    [slg(), rec()]
}
pub fn solver_name(c: &SolverChoice) -> &'static str {
    match c {
        SolverChoice::SLG { .. } => "slg",
        SolverChoice::Recursive { .. } => "recursive",
    }
}
pub fn solver_desc(c: &SolverChoice) -> String {
    match c {
        SolverChoice::SLG { max_size, .. } => format!("slg(max_size={})", max_size),
        SolverChoice::Recursive { overflow_depth, caching_enabled, max_size } => {
            format!("recursive(max_size={},overflow_depth={},cache={})", max_size, overflow_depth, caching_enabled)
        }
    }
}

pub struct Loaded {
    pub db: ChalkDatabase,
    pub program: Arc<Program>,
}

pub fn load(text: &str, choice: SolverChoice, checked: bool) -> Result<Loaded, String> {
    let db = ChalkDatabase::with(text, choice);
    let program = if checked { db.checked_program() } else { db.program_ir() }.map_err(|e| e.to_string())?;
    Ok(Loaded { db, program })
}

/// Run `f` with the program installed in chalk's TLS (needed for Debug output of ids).
pub fn with_program<R>(l: &Loaded, f: impl FnOnce() -> R) -> R {
    chalk_integration::tls::set_current_program(&l.program, f)
}

pub struct Peeled {
    pub goal: UGoal,
    /// canonical binder index -> model var id (exists var)
    pub binder_to_var: Vec<Option<usize>>,
    /// canonical universe -> original universe
    pub universes: UniverseMap,
}

/// Re-implementation of `GoalExt::into_peeled_goal` with public API that keeps the variable and universe maps.
/// `exists_ids` gives the model var ids for exists binders in peel order (may be shorter: extra binders get None).
pub fn peel(goal: Goal<I>, exists_ids: &[usize]) -> Peeled {
    let interner = ChalkIr;
    let mut infer: InferenceTable<I> = InferenceTable::new();
    let mut cur_universe = UniverseIndex::root();
    let mut env_goal = InEnvironment::new(&Environment::new(interner), goal);
    let mut ex_iter = exists_ids.iter();
    let mut var_of: Vec<(InferenceVar, Option<usize>)> = vec![];
    let peeled = loop {
        let InEnvironment { environment, goal } = env_goal;
        match goal.data(interner) {
            GoalData::Quantified(QuantifierKind::ForAll, subgoal) => {
                let sub = infer.instantiate_binders_universally(interner, subgoal.clone());
                env_goal = InEnvironment::new(&environment, sub);
            }
            GoalData::Quantified(QuantifierKind::Exists, subgoal) => {
                let (value, binders) = subgoal.clone().into_value_and_skipped_binders();
                let mut params: Vec<GenericArg<I>> = vec![];
                // instantiate_binders_existentially uses the table's max universe
                cur_universe = infer_max_universe(&mut infer);
                for k in binders.iter(interner) {
                    let v = infer.new_variable(cur_universe);
                    let id = ex_iter.next().cloned();
                    var_of.push((v.into(), id));
                    match k {
                        VariableKind::Ty(kind) => params.push(v.to_ty_with_kind(interner, *kind).cast(interner)),
                        VariableKind::Lifetime => params.push(v.to_lifetime(interner).cast(interner)),
                        VariableKind::Const(ty) => params.push(v.to_const(interner, ty.clone()).cast(interner)),
                    }
                }
                let sub = chalk_ir::fold::Subst::apply(interner, &params, value);
                env_goal = InEnvironment::new(&environment, sub);
            }
            GoalData::Implies(wc, subgoal) => {
                let new_env = environment.add_clauses(interner, wc.iter(interner).cloned());
                env_goal = InEnvironment::new(&new_env, Goal::clone(subgoal));
            }
            _ => break InEnvironment::new(&environment, goal),
        }
    };
    let canon = infer.canonicalize(interner, peeled);
    let binder_to_var: Vec<Option<usize>> = canon
        .free_vars
        .iter()
        .map(|fv| {
            let iv: InferenceVar = (*fv.skip_kind()).into();
            var_of.iter().find(|(v, _)| *v == iv).and_then(|(_, id)| *id)
        })
        .collect();
    let uc = InferenceTable::u_canonicalize(interner, &canon.quantified);
    Peeled { goal: uc.quantified, binder_to_var, universes: uc.universes }
}

fn infer_max_universe(infer: &mut InferenceTable<I>) -> UniverseIndex {
    // InferenceTable::max_universe is private; a fresh universe counter can be observed via new_universe only by
    // mutating. Instead we mirror it: instantiate_binders_universally with n>0 binders bumps the counter, with 0
    // binders it does not. We track it by probing: create a clone and ask for a new universe.
    let mut c = infer.clone();
    let next = c.new_universe();
    UniverseIndex { counter: next.counter - 1 }
}

pub fn lower_goal_text(l: &Loaded, text: &str) -> Result<Goal<I>, String> {
    let ast = chalk_parse::parse_goal(text).map_err(|e| format!("parse goal: {}", e))?;
    lower_goal(&*ast, &*l.program).map_err(|e| format!("lower goal: {}", e))
}

pub fn lower_and_peel(l: &Loaded, text: &str, exists_ids: &[usize]) -> Result<Peeled, String> {
    let goal = lower_goal_text(l, text)?;
    let p = peel(goal.clone(), exists_ids);
    // sanity: our peel agrees with chalk's
    use chalk_solve::ext::GoalExt;
    let theirs = goal.into_peeled_goal(ChalkIr);
    if p.goal != theirs {
        return Err(format!("HARNESS: peel mismatch ours={:?} theirs={:?}", p.goal, theirs));
    }
    Ok(p)
}

// ---------------------------------------------------------------------------------------------
// translation chalk -> model

fn scalar_name(s: &Scalar) -> &'static str {
    match s {
        Scalar::Bool => "bool",
        Scalar::Char => "char",
        Scalar::Int(IntTy::I32) => "i32",
        Scalar::Int(IntTy::I64) => "i64",
        Scalar::Int(IntTy::I8) => "i8",
        Scalar::Int(IntTy::I16) => "i16",
        Scalar::Int(IntTy::I128) => "i128",
        Scalar::Int(IntTy::Isize) => "isize",
        Scalar::Uint(UintTy::U8) => "u8",
        Scalar::Uint(UintTy::U16) => "u16",
        Scalar::Uint(UintTy::U32) => "u32",
        Scalar::Uint(UintTy::U64) => "u64",
        Scalar::Uint(UintTy::U128) => "u128",
        Scalar::Uint(UintTy::Usize) => "usize",
        Scalar::Float(FloatTy::F32) => "f32",
        Scalar::Float(FloatTy::F64) => "f64",
        Scalar::Float(FloatTy::F16) => "f16",
        Scalar::Float(FloatTy::F128) => "f128",
    }
}

/// Translate a chalk type in an answer into a model type. `Var(1000 + k)` denotes the k-th binder of the answer
/// itself. Placeholders are mapped back to the caller's universes through `universes`.
pub fn ty_to_model(program: &Program, universes: &UniverseMap, ty: &Ty<I>) -> Result<MTy, String> {
    use chalk_solve::infer::ucanonicalize::UniverseMapExt;
    let interner = ChalkIr;
    let args = |subst: &Substitution<I>| -> Result<Vec<MTy>, String> {
        let mut args = vec![];
        for a in subst.iter(interner) {
            match a.data(interner) {
                GenericArgData::Ty(t) => args.push(ty_to_model(program, universes, t)?),
                _ => return Err("non-type generic arg".into()),
            }
        }
        Ok(args)
    };
    match ty.kind(interner) {
        TyKind::Adt(id, subst) => Ok(MTy::App(program.adt_kinds[id].name.to_string(), args(subst)?)),
        TyKind::Scalar(s) => Ok(MTy::nullary(scalar_name(s))),
        TyKind::Tuple(_, subst) => Ok(MTy::app("@tuple", args(subst)?)),
        TyKind::Slice(t) => Ok(MTy::app("@slice", vec![ty_to_model(program, universes, t)?])),
        TyKind::Array(t, _) => Ok(MTy::app("@array", vec![ty_to_model(program, universes, t)?])),
        TyKind::Ref(m, _, t) => Ok(MTy::app(if *m == Mutability::Mut { "@refmut" } else { "@ref" }, vec![ty_to_model(program, universes, t)?])),
        TyKind::Raw(m, t) => Ok(MTy::app(if *m == Mutability::Mut { "@ptrmut" } else { "@ptr" }, vec![ty_to_model(program, universes, t)?])),
        TyKind::Str => Ok(MTy::nullary("@str")),
        TyKind::Never => Ok(MTy::nullary("@never")),
        TyKind::Placeholder(p) => {
            let orig = universes.map_universe_from_canonical(p.ui);
            Ok(MTy::Ph(orig.counter as u32, p.idx as u32))
        }
        TyKind::BoundVar(bv) => {
            if bv.debruijn != DebruijnIndex::INNERMOST {
                return Err(format!("dangling bound var {:?}", bv));
            }
            Ok(MTy::Var(1000 + bv.index))
        }
        other => Err(format!("unsupported type in answer: {:?}", other)),
    }
}

#[derive(Clone, Debug, PartialEq, Eq)]
pub enum MAnswer {
    None,
    /// substitution for exists vars (var id -> type), universes of the answer's own binders
    Unique(BTreeMap<usize, MTy>, Vec<u32>),
    Definite(BTreeMap<usize, MTy>, Vec<u32>),
    Suggested,
    Unknown,
}

impl MAnswer {
    pub fn kind(&self) -> &'static str {
        match self {
            MAnswer::None => "none",
            MAnswer::Unique(m, _) => {
                if m.is_empty() {
                    "unique-closed"
                } else {
                    "unique-subst"
                }
            }
            MAnswer::Definite(..) => "definite",
            MAnswer::Suggested => "suggested",
            MAnswer::Unknown => "unknown",
        }
    }
}

pub fn translate_subst(program: &Program, peeled: &Peeled, binders: &CanonicalVarKinds<I>, subst: &Substitution<I>) -> Result<(BTreeMap<usize, MTy>, Vec<u32>), String> {
    use chalk_solve::infer::ucanonicalize::UniverseMapExt;
    let interner = ChalkIr;
    if subst.len(interner) != peeled.binder_to_var.len() {
        return Err(format!("subst len {} != query binders {}", subst.len(interner), peeled.binder_to_var.len()));
    }
    let mut m = BTreeMap::new();
    for (i, a) in subst.iter(interner).enumerate() {
        let t = match a.data(interner) {
            GenericArgData::Ty(t) => ty_to_model(program, &peeled.universes, t)?,
            _ => return Err("non-type".into()),
        };
        if let Some(id) = peeled.binder_to_var[i] {
            m.insert(id, t);
        }
    }
    let us = binders.iter(interner).map(|b| peeled.universes.map_universe_from_canonical(*b.skip_kind()).counter as u32).collect();
    Ok((m, us))
}

pub fn translate(program: &Program, peeled: &Peeled, sol: &Option<Solution<I>>) -> Result<MAnswer, String> {
    Ok(match sol {
        None => MAnswer::None,
        Some(Solution::Unique(c)) => {
            let (m, u) = translate_subst(program, peeled, &c.binders, &c.value.subst)?;
            MAnswer::Unique(m, u)
        }
        Some(Solution::Ambig(Guidance::Definite(c))) => {
            let (m, u) = translate_subst(program, peeled, &c.binders, &c.value)?;
            MAnswer::Definite(m, u)
        }
        Some(Solution::Ambig(Guidance::Suggested(_))) => MAnswer::Suggested,
        Some(Solution::Ambig(Guidance::Unknown)) => MAnswer::Unknown,
    })
}

pub fn disp(sol: &Option<Solution<I>>) -> String {
    match sol {
        Some(s) => s.display(ChalkIr).to_string(),
        None => "No possible solution".into(),
    }
}

// ---------------------------------------------------------------------------------------------
// FaultDb: the environment boundary

pub const BUDGET_PAYLOAD: &str = "chalk-verif: callback budget exceeded";
pub const INJECT_PAYLOAD: &str = "chalk-verif: injected database fault";

struct HasVar;
impl TypeVisitor<I> for HasVar {
    type BreakTy = ();
    fn as_dyn(&mut self) -> &mut dyn TypeVisitor<I, BreakTy = ()> {
        self
    }
    fn visit_free_var(&mut self, _: BoundVar, _: DebruijnIndex) -> ControlFlow<()> {
        ControlFlow::Break(())
    }
    fn visit_inference_var(&mut self, _: InferenceVar, _: DebruijnIndex) -> ControlFlow<()> {
        ControlFlow::Break(())
    }
    fn interner(&self) -> I {
        ChalkIr
    }
}
pub fn has_var<T: TypeVisitable<I>>(t: &T) -> bool {
    t.visit_with(&mut HasVar, DebruijnIndex::INNERMOST).is_break()
}

pub struct FaultDb<'a> {
    pub inner: &'a dyn RustIrDatabase<I>,
    pub solver: &'static str,
    pub id: u64,
    /// number of callbacks so far (optionally including `interner()`)
    pub calls: Cell<u64>,
    pub count_interner: bool,
    /// panic with INJECT_PAYLOAD when `calls` reaches this value
    pub panic_at: Cell<Option<u64>>,
    /// panic with BUDGET_PAYLOAD when `calls` exceeds this value
    pub budget: Cell<u64>,
    /// wall-clock guard per solve (armed by `arm`); exceeding it unwinds like the callback budget. It only ever makes
    /// a solve "not judged" (or, in C09, a candidate that is confirmed by the callback count), never a verdict alone.
    pub time_limit: Cell<std::time::Duration>,
    pub deadline: Cell<Option<std::time::Instant>>,
    pub timed_out: Cell<bool>,
    /// the solve posed a coinductive/auto trait subgoal with non-ground arguments
    pub nonground_coinductive: Cell<bool>,
    pub hist: RefCell<BTreeMap<&'static str, u64>>,
    pub keep_hist: bool,
    /// C18 run-time monitor: impls filtered out by `impls_for_trait` that nevertheless unify
    /// item ids that crossed the database boundary in a way a recorder can see ("adt:3", "trait:1", "impl:7", ...)
    pub served: RefCell<std::collections::BTreeSet<String>>,
    pub track_served: bool,
    /// inside `program_clauses_for_env` (a wrapper around this database cannot see the lookups made there)
    pub in_env_clauses: Cell<bool>,
    pub check_filter: bool,
    /// every impl of the program with its trait, from the lowered `Program` itself (not through `impls_for_trait`)
    pub all_impls: Vec<(ImplId<I>, TraitId<I>)>,
    pub filter_checked: Cell<u64>,
    pub filter_rejected: Cell<u64>,
    pub filter_violations: RefCell<Vec<String>>,
}

impl<'a> std::fmt::Debug for FaultDb<'a> {
    fn fmt(&self, f: &mut std::fmt::Formatter<'_>) -> std::fmt::Result {
        write!(f, "FaultDb")
    }
}

pub const DEFAULT_BUDGET: u64 = 5_000_000;

thread_local! {
    static NEXT_DB_ID: Cell<u64> = const { Cell::new(0) };
}

impl<'a> Drop for FaultDb<'a> {
    fn drop(&mut self) {
        if self.nonground_coinductive.get() {
            emit_flag_done(self.id);
        }
    }
}

impl<'a> FaultDb<'a> {
    pub fn new(inner: &'a dyn RustIrDatabase<I>, solver: &'static str) -> Self {
        FaultDb {
            inner,
            solver,
            id: NEXT_DB_ID.with(|c| {
                let v = c.get();
                c.set(v + 1);
                v
            }),
            calls: Cell::new(0),
            count_interner: false,
            panic_at: Cell::new(None),
            budget: Cell::new(DEFAULT_BUDGET),
            time_limit: Cell::new(std::time::Duration::from_secs(2)),
            deadline: Cell::new(None),
            timed_out: Cell::new(false),
            nonground_coinductive: Cell::new(false),
            hist: RefCell::new(BTreeMap::new()),
            keep_hist: false,
            served: RefCell::new(Default::default()),
            track_served: false,
            in_env_clauses: Cell::new(false),
            check_filter: false,
            all_impls: vec![],
            filter_checked: Cell::new(0),
            filter_rejected: Cell::new(0),
            filter_violations: RefCell::new(vec![]),
        }
    }
    pub fn reset(&self) {
        self.calls.set(0);
        self.panic_at.set(None);
        if self.nonground_coinductive.get() {
            emit_flag_done(self.id);
        }
        self.nonground_coinductive.set(false);
    }
    /// Start the wall-clock guard for one solve.
    pub fn arm(&self) {
        self.timed_out.set(false);
        self.deadline.set(Some(std::time::Instant::now() + self.time_limit.get()));
    }
    fn tick(&self, what: &'static str) {
        let n = self.calls.get();
        self.calls.set(n + 1);
        if n % 64 == 63 {
            if let Some(d) = self.deadline.get() {
                if std::time::Instant::now() > d {
                    self.deadline.set(None);
                    self.timed_out.set(true);
                    std::panic::panic_any(BUDGET_PAYLOAD.to_string());
                }
            }
        }
        if self.keep_hist {
            *self.hist.borrow_mut().entry(what).or_insert(0) += 1;
        }
        if self.panic_at.get() == Some(n) {
            self.panic_at.set(None);
            if std::env::var_os("VERIF_BT").is_some() {
                eprintln!("[injected fault at call {}]\n{}", n, std::backtrace::Backtrace::force_capture());
            }
            std::panic::panic_any(format!("{} at call {} ({})", INJECT_PAYLOAD, n, what));
        }
        if n > self.budget.get() {
            // raise the budget so unwinding code that calls back does not panic again
            self.budget.set(u64::MAX);
            std::panic::panic_any(BUDGET_PAYLOAD.to_string());
        }
    }
    fn serve(&self, kind: &str, idx: u32) {
        if self.track_served && !self.in_env_clauses.get() {
            self.served.borrow_mut().insert(format!("{}:{}", kind, idx));
        }
    }
    fn note_coinductive(&self, t: TraitId<I>, nonground: bool) {
        if nonground && !self.nonground_coinductive.get() {
            let d = self.inner.trait_datum(t);
            if d.flags.auto || d.flags.coinductive {
                self.nonground_coinductive.set(true);
                emit_flag(self.solver, "nonground-coinductive", self.id);
            }
        }
    }
    fn filter_monitor(&self, t: TraitId<I>, params: &[GenericArg<I>], binders: &CanonicalVarKinds<I>, kept: &[ImplId<I>]) {
        // Recompute the unfiltered impl list through an independent path: every impl of the trait known to the
        // database (via impls_for_trait with fully general arguments) and decide by real unification.
        let interner = ChalkIr;
        let datum = self.inner.trait_datum(t);
        let n = datum.binders.len(interner);
        let general_binders = CanonicalVarKinds::from_iter(
            interner,
            (0..n).map(|_| CanonicalVarKind::new(VariableKind::Ty(TyVariableKind::General), UniverseIndex::root())),
        );
        let general: Vec<GenericArg<I>> = datum.binders.binders.iter(interner).enumerate().map(|(i, k)| (i, k).to_generic_arg(interner)).collect();
        // only type parameters are handled by this monitor
        if !datum.binders.binders.iter(interner).all(|k| matches!(k, VariableKind::Ty(_))) {
            return;
        }
        // independent source of "all impls": the program's own impl table when the harness provided it
        let all: Vec<ImplId<I>> = if self.all_impls.is_empty() { self.inner.impls_for_trait(t, &general, &general_binders) } else { self.all_impls.iter().filter(|(_, tr)| *tr == t).map(|(id, _)| *id).collect() };
        for id in all {
            if kept.contains(&id) {
                continue;
            }
            self.filter_rejected.set(self.filter_rejected.get() + 1);
            let impl_datum = self.inner.impl_datum(id);
            let mut table: InferenceTable<I> = InferenceTable::new();
            // instantiate the query's canonical binders and the impl's binders with fresh variables
            let canon = Canonical { binders: binders.clone(), value: Substitution::from_iter(interner, params.iter().cloned()) };
            let q = table.instantiate_canonical(interner, canon);
            let bound = table.instantiate_binders_existentially(interner, impl_datum.binders.clone());
            let theirs = bound.trait_ref.substitution.clone();
            self.filter_checked.set(self.filter_checked.get() + 1);
            let env = Environment::new(interner);
            let r = catch_unwind(AssertUnwindSafe(|| {
                q.len(interner) == theirs.len(interner)
                    && q.iter(interner).zip(theirs.iter(interner)).all(|(a, b)| table.relate(interner, self.inner.unification_database(), &env, Variance::Invariant, a, b).is_ok())
            }));
            if let Ok(true) = r {
                self.filter_violations.borrow_mut().push(format!(
                    "impls_for_trait({:?}, {:?}) omitted impl {:?} whose header {:?} unifies with the arguments",
                    t, params, id, impl_datum.binders.skip_binders().trait_ref
                ));
            }
        }
    }
}

impl<'a> UnificationDatabase<I> for FaultDb<'a> {
    fn fn_def_variance(&self, id: FnDefId<I>) -> Variances<I> {
        self.tick("fn_def_variance");
        self.serve("fndef", id.0.index);
        self.inner.unification_database().fn_def_variance(id)
    }
    fn adt_variance(&self, id: AdtId<I>) -> Variances<I> {
        self.tick("adt_variance");
        self.serve("adt", id.0.index);
        self.inner.unification_database().adt_variance(id)
    }
}

impl<'a> RustIrDatabase<I> for FaultDb<'a> {
    fn custom_clauses(&self) -> Vec<ProgramClause<I>> {
        self.tick("custom_clauses");
        self.inner.custom_clauses()
    }
    fn associated_ty_data(&self, ty: AssocTypeId<I>) -> Arc<AssociatedTyDatum<I>> {
        self.tick("associated_ty_data");
        let d = self.inner.associated_ty_data(ty);
        self.serve("trait", d.trait_id.0.index);
        d
    }
    fn trait_datum(&self, id: TraitId<I>) -> Arc<TraitDatum<I>> {
        self.tick("trait_datum");
        self.serve("trait", id.0.index);
        self.inner.trait_datum(id)
    }
    fn adt_datum(&self, id: AdtId<I>) -> Arc<AdtDatum<I>> {
        self.tick("adt_datum");
        self.serve("adt", id.0.index);
        self.inner.adt_datum(id)
    }
    fn coroutine_datum(&self, id: CoroutineId<I>) -> Arc<CoroutineDatum<I>> {
        self.tick("coroutine_datum");
        self.inner.coroutine_datum(id)
    }
    fn coroutine_witness_datum(&self, id: CoroutineId<I>) -> Arc<CoroutineWitnessDatum<I>> {
        self.tick("coroutine_witness_datum");
        self.inner.coroutine_witness_datum(id)
    }
    fn adt_repr(&self, id: AdtId<I>) -> Arc<AdtRepr<I>> {
        self.tick("adt_repr");
        self.serve("adt", id.0.index);
        self.inner.adt_repr(id)
    }
    fn adt_size_align(&self, id: AdtId<I>) -> Arc<AdtSizeAlign> {
        self.tick("adt_size_align");
        self.serve("adt", id.0.index);
        self.inner.adt_size_align(id)
    }
    fn fn_def_datum(&self, id: FnDefId<I>) -> Arc<FnDefDatum<I>> {
        self.tick("fn_def_datum");
        self.serve("fndef", id.0.index);
        self.inner.fn_def_datum(id)
    }
    fn impl_datum(&self, id: ImplId<I>) -> Arc<ImplDatum<I>> {
        self.tick("impl_datum");
        self.serve("impl", id.0.index);
        self.inner.impl_datum(id)
    }
    fn associated_ty_from_impl(&self, impl_id: ImplId<I>, a: AssocTypeId<I>) -> Option<AssociatedTyValueId<I>> {
        self.tick("associated_ty_from_impl");
        self.inner.associated_ty_from_impl(impl_id, a)
    }
    fn associated_ty_value(&self, id: AssociatedTyValueId<I>) -> Arc<AssociatedTyValue<I>> {
        self.tick("associated_ty_value");
        let v = self.inner.associated_ty_value(id);
        self.serve("impl", v.impl_id.0.index);
        v
    }
    fn opaque_ty_data(&self, id: OpaqueTyId<I>) -> Arc<OpaqueTyDatum<I>> {
        self.tick("opaque_ty_data");
        self.serve("opaque", id.0.index);
        self.inner.opaque_ty_data(id)
    }
    fn hidden_opaque_type(&self, id: OpaqueTyId<I>) -> Ty<I> {
        self.tick("hidden_opaque_type");
        self.serve("opaque", id.0.index);
        self.inner.hidden_opaque_type(id)
    }
    fn impls_for_trait(&self, t: TraitId<I>, p: &[GenericArg<I>], b: &CanonicalVarKinds<I>) -> Vec<ImplId<I>> {
        self.tick("impls_for_trait");
        self.note_coinductive(t, p.iter().any(|a| has_var(a)));
        let r = self.inner.impls_for_trait(t, p, b);
        self.serve("trait", t.0.index);
        for i in &r {
            self.serve("impl", i.0.index);
        }
        if self.check_filter {
            self.filter_monitor(t, p, b, &r);
        }
        r
    }
    fn local_impls_to_coherence_check(&self, t: TraitId<I>) -> Vec<ImplId<I>> {
        self.tick("local_impls_to_coherence_check");
        self.serve("trait", t.0.index);
        self.inner.local_impls_to_coherence_check(t)
    }
    fn impl_provided_for(&self, t: TraitId<I>, ty: &TyKind<I>) -> bool {
        self.tick("impl_provided_for");
        self.serve("trait", t.0.index);
        if let TyKind::Adt(a, _) = ty {
            self.serve("adt", a.0.index);
        }
        self.inner.impl_provided_for(t, ty)
    }
    fn well_known_trait_id(&self, w: WellKnownTrait) -> Option<TraitId<I>> {
        self.tick("well_known_trait_id");
        self.inner.well_known_trait_id(w)
    }
    fn well_known_assoc_type_id(&self, w: WellKnownAssocType) -> Option<AssocTypeId<I>> {
        self.tick("well_known_assoc_type_id");
        self.inner.well_known_assoc_type_id(w)
    }
    fn program_clauses_for_env(&self, environment: &Environment<I>) -> ProgramClauses<I> {
        self.tick("program_clauses_for_env");
        let before = self.in_env_clauses.replace(true);
        let r = chalk_solve::program_clauses_for_env(self, environment);
        self.in_env_clauses.set(before);
        r
    }
    fn interner(&self) -> I {
        if self.count_interner {
            self.tick("interner");
        }
        ChalkIr
    }
    fn is_object_safe(&self, t: TraitId<I>) -> bool {
        self.tick("is_object_safe");
        self.serve("trait", t.0.index);
        self.inner.is_object_safe(t)
    }
    fn closure_kind(&self, c: ClosureId<I>, s: &Substitution<I>) -> ClosureKind {
        self.tick("closure_kind");
        self.inner.closure_kind(c, s)
    }
    fn closure_inputs_and_output(&self, c: ClosureId<I>, s: &Substitution<I>) -> Binders<FnDefInputsAndOutputDatum<I>> {
        self.tick("closure_inputs_and_output");
        self.inner.closure_inputs_and_output(c, s)
    }
    fn closure_upvars(&self, c: ClosureId<I>, s: &Substitution<I>) -> Binders<Ty<I>> {
        self.tick("closure_upvars");
        self.inner.closure_upvars(c, s)
    }
    fn closure_fn_substitution(&self, c: ClosureId<I>, s: &Substitution<I>) -> Substitution<I> {
        self.tick("closure_fn_substitution");
        self.inner.closure_fn_substitution(c, s)
    }
    fn unification_database(&self) -> &dyn UnificationDatabase<I> {
        self
    }
    fn trait_name(&self, t: TraitId<I>) -> String {
        self.inner.trait_name(t)
    }
    fn adt_name(&self, t: AdtId<I>) -> String {
        self.inner.adt_name(t)
    }
    fn assoc_type_name(&self, t: AssocTypeId<I>) -> String {
        self.inner.assoc_type_name(t)
    }
    fn opaque_type_name(&self, t: OpaqueTyId<I>) -> String {
        self.inner.opaque_type_name(t)
    }
    fn fn_def_name(&self, t: FnDefId<I>) -> String {
        self.inner.fn_def_name(t)
    }
    fn discriminant_type(&self, ty: Ty<I>) -> Ty<I> {
        self.tick("discriminant_type");
        if let TyKind::Adt(a, _) = ty.kind(ChalkIr) {
            self.serve("adt", a.0.index);
        }
        self.inner.discriminant_type(ty)
    }
}

// ---------------------------------------------------------------------------------------------
// solver runner

#[derive(Debug, Clone)]
pub enum Outcome {
    Answer(Option<Solution<I>>),
    /// chalk panicked (message)
    Panic(String),
    /// the callback budget was exceeded
    Budget,
    /// our own injected fault unwound out of the solver
    Injected,
}

impl Outcome {
    pub fn answer(&self) -> Option<&Option<Solution<I>>> {
        match self {
            Outcome::Answer(a) => Some(a),
            _ => None,
        }
    }
    pub fn show(&self) -> String {
        match self {
            Outcome::Answer(a) => disp(a),
            Outcome::Panic(m) => format!("PANIC: {}", m),
            Outcome::Budget => "BUDGET-EXCEEDED".into(),
            Outcome::Injected => "INJECTED-FAULT".into(),
        }
    }
}

pub fn classify_unwind(e: Box<dyn std::any::Any + Send>) -> Outcome {
    let m = panic_msg(&e);
    if m.starts_with(BUDGET_PAYLOAD) {
        Outcome::Budget
    } else if m.starts_with(INJECT_PAYLOAD) {
        Outcome::Injected
    } else {
        Outcome::Panic(m)
    }
}

thread_local! {
    pub static LAST_PANIC_LOC: RefCell<String> = const { RefCell::new(String::new()) };
}

/// Installs a quiet panic hook that records the panic location (used in known-finding signatures).
pub fn install_panic_hook() {
    std::panic::set_hook(Box::new(|info| {
        let loc = info.location().map(|l| format!("{}:{}", l.file(), l.line())).unwrap_or_default();
        LAST_PANIC_LOC.with(|l| *l.borrow_mut() = loc);
    }));
}
pub fn last_panic_loc() -> String {
    LAST_PANIC_LOC.with(|l| l.borrow().clone())
}

pub fn solve(solver: &mut dyn chalk_solve::Solver<I>, db: &FaultDb<'_>, goal: &UGoal) -> Outcome {
    db.arm();
    let trace = std::env::var_os("VERIF_TRACE").is_some();
    let t0 = std::time::Instant::now();
    if trace {
        eprintln!("[trace] {} solve {:?}", db.solver, goal.canonical.value.goal);
    }
    let r = match catch_unwind(AssertUnwindSafe(|| solver.solve(db, goal))) {
        Ok(a) => Outcome::Answer(a),
        Err(e) => classify_unwind(e),
    };
    if trace {
        eprintln!("[trace]   -> {} ({} callbacks, {:?})", r.show(), db.calls.get(), t0.elapsed());
    }
    r
}

pub fn solve_limited(solver: &mut dyn chalk_solve::Solver<I>, db: &FaultDb<'_>, goal: &UGoal, f: &dyn Fn() -> bool) -> Outcome {
    db.arm();
    match catch_unwind(AssertUnwindSafe(|| solver.solve_limited(db, goal, f))) {
        Ok(a) => Outcome::Answer(a),
        Err(e) => classify_unwind(e),
    }
}

/// Fresh solver, fresh FaultDb over the loaded program, one solve.
pub fn fresh_solve(l: &Loaded, choice: SolverChoice, goal: &UGoal) -> (Outcome, u64, bool) {
    let db = FaultDb::new(&*l.program, solver_name(&choice));
    let mut s = choice.into_solver();
    let o = solve(&mut *s, &db, goal);
    (o, db.calls.get(), db.nonground_coinductive.get())
}
