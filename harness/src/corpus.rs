//! Seed corpus: every `program { … }` block (with the `goal { … }` blocks that follow it) extracted at run time from
//! /repo/tests/**/*.rs by brace matching. Blocks that do not parse standalone are skipped by the users and counted.
use std::path::Path;

#[derive(Clone, Debug)]
pub struct CorpusEntry {
    pub file: String,
    pub program: String,
    pub goals: Vec<String>,
}

fn walk(dir: &Path, out: &mut Vec<std::path::PathBuf>) {
    if let Ok(rd) = std::fs::read_dir(dir) {
        let mut es: Vec<_> = rd.filter_map(|e| e.ok()).map(|e| e.path()).collect();
        es.sort();
        for p in es {
            if p.is_dir() {
                walk(&p, out);
            } else if p.extension().map_or(false, |e| e == "rs") {
                out.push(p);
            }
        }
    }
}

/// Returns the text between the `{` at `open` and its matching `}` (exclusive), and the index after the `}`.
fn block(src: &[u8], open: usize) -> Option<(String, usize)> {
    let mut depth = 0usize;
    let mut i = open;
    while i < src.len() {
        match src[i] {
            b'{' => depth += 1,
            b'}' => {
                depth -= 1;
                if depth == 0 {
                    return Some((String::from_utf8_lossy(&src[open + 1..i]).to_string(), i + 1));
                }
            }
            b'/' if i + 1 < src.len() && src[i + 1] == b'/' => {
                while i < src.len() && src[i] != b'\n' {
                    i += 1;
                }
                continue;
            }
            _ => {}
        }
        i += 1;
    }
    None
}

fn strip_comments(s: &str) -> String {
    s.lines().map(|l| match l.find("//") { Some(i) => &l[..i], None => l }).collect::<Vec<_>>().join("\n")
}

fn find_kw(src: &[u8], from: usize, kw: &[u8]) -> Option<usize> {
    let mut i = from;
    while i + kw.len() < src.len() {
        if &src[i..i + kw.len()] == kw && (i == 0 || !(src[i - 1] as char).is_alphanumeric() && src[i - 1] != b'_') {
            // skip whitespace to '{'
            let mut j = i + kw.len();
            while j < src.len() && (src[j] as char).is_whitespace() {
                j += 1;
            }
            if j < src.len() && src[j] == b'{' {
                return Some(j);
            }
        }
        i += 1;
    }
    None
}

pub fn load_corpus() -> Vec<CorpusEntry> {
    let mut files = vec![];
    walk(Path::new("/repo/tests"), &mut files);
    let mut out = vec![];
    for f in files {
        let src = match std::fs::read(&f) {
            Ok(s) => s,
            Err(_) => continue,
        };
        let mut pos = 0;
        while let Some(open) = find_kw(&src, pos, b"program") {
            let (ptext, after) = match block(&src, open) {
                Some(x) => x,
                None => break,
            };
            // goals until the next program block
            let next_prog = find_kw(&src, after, b"program").unwrap_or(src.len());
            let mut goals = vec![];
            let mut gpos = after;
            while let Some(gopen) = find_kw(&src, gpos, b"goal") {
                if gopen >= next_prog {
                    break;
                }
                match block(&src, gopen) {
                    Some((g, gafter)) => {
                        goals.push(strip_comments(&g).split_whitespace().collect::<Vec<_>>().join(" "));
                        gpos = gafter;
                    }
                    None => break,
                }
            }
            out.push(CorpusEntry { file: f.to_string_lossy().to_string(), program: strip_comments(&ptext), goals });
            pos = after;
        }
    }
    out
}
