//! A mirror AST of chalk_ir terms with explicit binders, used as the *reference* for the binder laws (C25) and the
//! type flags (C26): textbook shift / substitution and a flag walk are implemented on the mirror, chalk's operations
//! are run on the converted term, and the two results are compared.
use crate::drive::I;
use crate::rng::Rng;
use chalk_integration::interner::{ChalkFnAbi, ChalkIr, RawId};
use chalk_ir::cast::Cast;
use chalk_ir::*;

#[derive(Clone, Copy, PartialEq, Eq, Debug)]
pub enum VK {
    Ty,
    Lt,
    Ct,
}

#[derive(Clone, PartialEq, Eq, Debug)]
pub enum ILt {
    Bound(usize, usize),
    Infer(u32),
    Ph(usize, usize),
    Static,
    Erased,
    Error,
}

#[derive(Clone, PartialEq, Eq, Debug)]
pub enum ICt {
    Bound(usize, usize),
    Infer(u32),
    Ph(usize, usize),
    Val(u32),
    /// a concrete value whose *type* is not plain `usize` but one of a few closed types (see `const_ty`); no bound
    /// variables inside, so shifting and substitution leave it alone
    Typed(u8, u32),
}

/// The closed types a `ICt::Typed` constant can have.
pub fn const_ty(code: u8) -> ITy {
    match code % 5 {
        0 => ITy::Ref(false, ILt::Static, Box::new(ITy::Scalar(1))),
        1 => ITy::Ph(1, 0),
        2 => ITy::Error,
        3 => ITy::Ref(true, ILt::Erased, Box::new(ITy::Scalar(0))),
        _ => ITy::Raw(false, Box::new(ITy::Ref(false, ILt::Ph(1, 1), Box::new(ITy::Str)))),
    }
}

#[derive(Clone, PartialEq, Eq, Debug)]
pub enum IArg {
    Ty(ITy),
    Lt(ILt),
    Ct(ICt),
}

#[derive(Clone, PartialEq, Eq, Debug)]
pub enum IWc {
    Implemented(u32, Vec<IArg>),
    AliasEq(u32, Vec<IArg>, ITy),
    LtOutlives(ILt, ILt),
    TyOutlives(ITy, ILt),
}

#[derive(Clone, PartialEq, Eq, Debug)]
pub enum ITy {
    Adt(u32, Vec<IArg>),
    Assoc(u32, Vec<IArg>),
    Scalar(u8),
    Tuple(Vec<IArg>),
    Array(Box<ITy>, ICt),
    Slice(Box<ITy>),
    Raw(bool, Box<ITy>),
    Ref(bool, ILt, Box<ITy>),
    OpaqueTy(u32, Vec<IArg>),
    FnDef(u32, Vec<IArg>),
    Str,
    Never,
    Closure(u32, Vec<IArg>),
    Coroutine(u32, Vec<IArg>),
    CoroutineWitness(u32, Vec<IArg>),
    Foreign(u32),
    Error,
    Ph(usize, usize),
    /// dyn: bounds under one binder (Self), each bound under its own binder of `n` lifetimes
    Dyn(Vec<(usize, IWc)>, ILt),
    AliasProj(u32, Vec<IArg>),
    AliasOpaque(u32, Vec<IArg>),
    /// fn pointer: `num_binders` lifetimes, argument/return types under that binder
    Fn(usize, Vec<IArg>),
    Bound(usize, usize),
    Infer(u32, u8),
}

#[derive(Clone, PartialEq, Eq, Debug)]
pub enum IGoal {
    Holds(IWc),
    WfTy(ITy),
    FromEnvTy(ITy),
    IsLocal(ITy),
    Eq(IArg, IArg),
    Subtype(ITy, ITy),
    All(Vec<IGoal>),
    Not(Box<IGoal>),
    Implies(Vec<IClause>, Box<IGoal>),
    Quant(bool, Vec<VK>, Box<IGoal>),
    CannotProve,
}

#[derive(Clone, PartialEq, Eq, Debug)]
pub struct IClause {
    pub kinds: Vec<VK>,
    pub consequence: IWc,
    pub conditions: Vec<IGoal>,
    pub high: bool,
}

// ---------------------------------------------------------------------------------------------
// generation

pub struct GenCtx {
    /// kinds of the variables bound by the enclosing binders, innermost first
    pub scopes: Vec<Vec<VK>>,
    /// number of *free* binder levels assumed outside the term (each with 3 variables of every kind)
    pub free_levels: usize,
    pub allow_infer: bool,
}

impl GenCtx {
    fn pick_bound(&self, r: &mut Rng, kind: VK) -> Option<(usize, usize)> {
        let mut cands = vec![];
        for (d, sc) in self.scopes.iter().rev().enumerate() {
            for (i, k) in sc.iter().enumerate() {
                if *k == kind {
                    cands.push((d, i));
                }
            }
        }
        for f in 0..self.free_levels {
            for i in 0..3 {
                cands.push((self.scopes.len() + f, i * 3 + kind as usize));
            }
        }
        if cands.is_empty() {
            None
        } else {
            Some(*r.pick(&cands))
        }
    }
}

/// Kind of variable `idx` in a free level: idx % 3 (0 Ty, 1 Lt, 2 Ct).
pub fn free_kind(idx: usize) -> VK {
    match idx % 3 {
        0 => VK::Ty,
        1 => VK::Lt,
        _ => VK::Ct,
    }
}

pub fn gen_lt(r: &mut Rng, cx: &GenCtx) -> ILt {
    match r.below(8) {
        0 | 1 => match cx.pick_bound(r, VK::Lt) {
            Some((d, i)) => ILt::Bound(d, i),
            None => ILt::Static,
        },
        2 if cx.allow_infer => ILt::Infer(r.below(4) as u32),
        3 => ILt::Ph(r.below(4), r.below(3)),
        4 => ILt::Erased,
        5 => ILt::Error,
        _ => ILt::Static,
    }
}

pub fn gen_ct(r: &mut Rng, cx: &GenCtx) -> ICt {
    match r.below(6) {
        0 | 1 => match cx.pick_bound(r, VK::Ct) {
            Some((d, i)) => ICt::Bound(d, i),
            None => ICt::Val(7),
        },
        2 if cx.allow_infer => ICt::Infer(r.below(4) as u32),
        3 => ICt::Ph(r.below(4), r.below(3)),
        4 => ICt::Typed(r.below(5) as u8, r.below(5) as u32),
        _ => ICt::Val(r.below(5) as u32),
    }
}

pub fn gen_arg(r: &mut Rng, cx: &mut GenCtx, d: usize) -> IArg {
    match r.below(6) {
        0 => IArg::Lt(gen_lt(r, cx)),
        1 => IArg::Ct(gen_ct(r, cx)),
        _ => IArg::Ty(gen_ty(r, cx, d)),
    }
}

fn gen_args(r: &mut Rng, cx: &mut GenCtx, d: usize, max: usize) -> Vec<IArg> {
    (0..r.below(max + 1)).map(|_| gen_arg(r, cx, d)).collect()
}

pub fn gen_wc(r: &mut Rng, cx: &mut GenCtx, d: usize) -> IWc {
    match r.below(5) {
        0 | 1 => {
            let mut a = vec![IArg::Ty(gen_ty(r, cx, d))];
            a.extend(gen_args(r, cx, d, 2));
            IWc::Implemented(r.below(4) as u32, a)
        }
        2 => {
            let mut a = vec![IArg::Ty(gen_ty(r, cx, d))];
            a.extend(gen_args(r, cx, d, 1));
            IWc::AliasEq(r.below(3) as u32, a, gen_ty(r, cx, d))
        }
        3 => IWc::LtOutlives(gen_lt(r, cx), gen_lt(r, cx)),
        _ => IWc::TyOutlives(gen_ty(r, cx, d), gen_lt(r, cx)),
    }
}

pub fn gen_ty(r: &mut Rng, cx: &mut GenCtx, d: usize) -> ITy {
    let leaf = d == 0;
    let k = r.below(if leaf { 12 } else { 30 });
    let d1 = d.saturating_sub(1);
    match k {
        0 | 1 | 2 => match cx.pick_bound(r, VK::Ty) {
            Some((db, i)) => ITy::Bound(db, i),
            None => ITy::Scalar(0),
        },
        3 if cx.allow_infer => ITy::Infer(r.below(4) as u32, r.below(3) as u8),
        4 => ITy::Ph(r.below(4), r.below(3)),
        5 => ITy::Scalar(r.below(4) as u8),
        6 => ITy::Str,
        7 => ITy::Never,
        8 => ITy::Foreign(r.below(3) as u32),
        9 => ITy::Error,
        10 | 11 => ITy::Adt(r.below(2) as u32, vec![]),
        12 | 13 => ITy::Adt(2 + r.below(3) as u32, gen_args(r, cx, d1, 3)),
        14 => ITy::Assoc(r.below(3) as u32, gen_args(r, cx, d1, 2)),
        15 => ITy::Tuple((0..r.below(3)).map(|_| IArg::Ty(gen_ty(r, cx, d1))).collect()),
        16 => ITy::Array(Box::new(gen_ty(r, cx, d1)), gen_ct(r, cx)),
        17 => ITy::Slice(Box::new(gen_ty(r, cx, d1))),
        18 => ITy::Raw(r.chance(50), Box::new(gen_ty(r, cx, d1))),
        19 | 20 => {
            let l = gen_lt(r, cx);
            ITy::Ref(r.chance(40), l, Box::new(gen_ty(r, cx, d1)))
        }
        21 => ITy::OpaqueTy(r.below(3) as u32, gen_args(r, cx, d1, 2)),
        22 => ITy::FnDef(r.below(3) as u32, gen_args(r, cx, d1, 2)),
        23 => match r.below(3) {
            0 => ITy::Closure(r.below(3) as u32, gen_args(r, cx, d1, 2)),
            1 => ITy::Coroutine(r.below(3) as u32, gen_args(r, cx, d1, 2)),
            _ => ITy::CoroutineWitness(r.below(3) as u32, gen_args(r, cx, d1, 2)),
        },
        24 | 25 => {
            // dyn: Self binder, then each bound under its own lifetime binder
            cx.scopes.push(vec![VK::Ty]);
            let mut bounds = vec![];
            for _ in 0..1 + r.below(2) {
                let n = r.below(2);
                cx.scopes.push(vec![VK::Lt; n]);
                bounds.push((n, gen_wc(r, cx, d1)));
                cx.scopes.pop();
            }
            cx.scopes.pop();
            let l = gen_lt(r, cx);
            ITy::Dyn(bounds, l)
        }
        26 => ITy::AliasProj(r.below(3) as u32, {
            let mut a = vec![IArg::Ty(gen_ty(r, cx, d1))];
            a.extend(gen_args(r, cx, d1, 1));
            a
        }),
        27 => ITy::AliasOpaque(r.below(3) as u32, gen_args(r, cx, d1, 2)),
        _ => {
            let n = r.below(3);
            cx.scopes.push(vec![VK::Lt; n]);
            let args: Vec<IArg> = (0..1 + r.below(3)).map(|_| IArg::Ty(gen_ty(r, cx, d1))).collect();
            cx.scopes.pop();
            ITy::Fn(n, args)
        }
    }
}

pub fn gen_goal(r: &mut Rng, cx: &mut GenCtx, d: usize) -> IGoal {
    let k = r.below(if d == 0 { 6 } else { 12 });
    let d1 = d.saturating_sub(1);
    match k {
        0 | 1 => IGoal::Holds(gen_wc(r, cx, 1)),
        2 => IGoal::WfTy(gen_ty(r, cx, 1)),
        3 => IGoal::Eq(gen_arg(r, cx, 1), gen_arg(r, cx, 1)),
        4 => IGoal::Subtype(gen_ty(r, cx, 1), gen_ty(r, cx, 1)),
        5 => match r.below(3) {
            0 => IGoal::CannotProve,
            1 => IGoal::FromEnvTy(gen_ty(r, cx, 1)),
            _ => IGoal::IsLocal(gen_ty(r, cx, 1)),
        },
        6 => IGoal::All((0..r.below(3)).map(|_| gen_goal(r, cx, d1)).collect()),
        7 => IGoal::Not(Box::new(gen_goal(r, cx, d1))),
        8 | 9 => {
            let kinds: Vec<VK> = (0..1 + r.below(2)).map(|_| free_kind(r.below(3))).collect();
            cx.scopes.push(kinds.clone());
            let g = gen_goal(r, cx, d1);
            cx.scopes.pop();
            IGoal::Quant(r.chance(50), kinds, Box::new(g))
        }
        _ => {
            let clauses = (0..1 + r.below(2)).map(|_| gen_clause(r, cx, d1)).collect();
            IGoal::Implies(clauses, Box::new(gen_goal(r, cx, d1)))
        }
    }
}

pub fn gen_clause(r: &mut Rng, cx: &mut GenCtx, d: usize) -> IClause {
    let kinds: Vec<VK> = (0..r.below(3)).map(|_| free_kind(r.below(3))).collect();
    cx.scopes.push(kinds.clone());
    let consequence = gen_wc(r, cx, 1);
    let conditions = (0..r.below(3)).map(|_| gen_goal(r, cx, d.min(1))).collect();
    cx.scopes.pop();
    IClause { kinds, consequence, conditions, high: r.chance(70) }
}

// ---------------------------------------------------------------------------------------------
// conversion to chalk_ir

fn bv(d: usize, i: usize) -> BoundVar {
    BoundVar::new(DebruijnIndex::new(d as u32), i)
}
fn usize_ty() -> Ty<I> {
    TyKind::Scalar(Scalar::Uint(UintTy::Usize)).intern(ChalkIr)
}
fn ph(u: usize, i: usize) -> PlaceholderIndex {
    PlaceholderIndex { ui: UniverseIndex { counter: u }, idx: i }
}
fn rid(i: u32) -> RawId {
    RawId { index: i }
}

pub fn lt_c(l: &ILt) -> Lifetime<I> {
    let i = ChalkIr;
    match l {
        ILt::Bound(d, k) => LifetimeData::BoundVar(bv(*d, *k)).intern(i),
        ILt::Infer(v) => LifetimeData::InferenceVar(InferenceVar::from(*v)).intern(i),
        ILt::Ph(u, k) => LifetimeData::Placeholder(ph(*u, *k)).intern(i),
        ILt::Static => LifetimeData::Static.intern(i),
        ILt::Erased => LifetimeData::Erased.intern(i),
        ILt::Error => LifetimeData::Error.intern(i),
    }
}

pub fn ct_c(c: &ICt) -> Const<I> {
    let i = ChalkIr;
    let value = match c {
        ICt::Bound(d, k) => ConstValue::BoundVar(bv(*d, *k)),
        ICt::Infer(v) => ConstValue::InferenceVar(InferenceVar::from(*v)),
        ICt::Ph(u, k) => ConstValue::Placeholder(ph(*u, *k)),
        ICt::Val(n) => ConstValue::Concrete(ConcreteConst { interned: *n }),
        ICt::Typed(code, n) => return ConstData { ty: ty_c(&const_ty(*code)), value: ConstValue::Concrete(ConcreteConst { interned: *n }) }.intern(i),
    };
    ConstData { ty: usize_ty(), value }.intern(i)
}

pub fn arg_c(a: &IArg) -> GenericArg<I> {
    let i = ChalkIr;
    match a {
        IArg::Ty(t) => ty_c(t).cast(i),
        IArg::Lt(l) => lt_c(l).cast(i),
        IArg::Ct(c) => ct_c(c).cast(i),
    }
}

pub fn subst_c(a: &[IArg]) -> Substitution<I> {
    Substitution::from_iter(ChalkIr, a.iter().map(arg_c))
}

fn kinds_c(k: &[VK]) -> VariableKinds<I> {
    VariableKinds::from_iter(
        ChalkIr,
        k.iter().map(|k| match k {
            VK::Ty => VariableKind::Ty(TyVariableKind::General),
            VK::Lt => VariableKind::Lifetime,
            VK::Ct => VariableKind::Const(usize_ty()),
        }),
    )
}

pub fn wc_c(w: &IWc) -> WhereClause<I> {
    match w {
        IWc::Implemented(t, a) => WhereClause::Implemented(TraitRef { trait_id: TraitId(rid(*t)), substitution: subst_c(a) }),
        IWc::AliasEq(t, a, ty) => WhereClause::AliasEq(AliasEq { alias: AliasTy::Projection(ProjectionTy { associated_ty_id: AssocTypeId(rid(*t)), substitution: subst_c(a) }), ty: ty_c(ty) }),
        IWc::LtOutlives(a, b) => WhereClause::LifetimeOutlives(LifetimeOutlives { a: lt_c(a), b: lt_c(b) }),
        IWc::TyOutlives(t, l) => WhereClause::TypeOutlives(TypeOutlives { ty: ty_c(t), lifetime: lt_c(l) }),
    }
}

pub fn ty_c(t: &ITy) -> Ty<I> {
    let i = ChalkIr;
    let m = |b: bool| if b { Mutability::Mut } else { Mutability::Not };
    match t {
        ITy::Adt(id, a) => TyKind::Adt(AdtId(rid(*id)), subst_c(a)),
        ITy::Assoc(id, a) => TyKind::AssociatedType(AssocTypeId(rid(*id)), subst_c(a)),
        ITy::Scalar(0) => TyKind::Scalar(Scalar::Int(IntTy::I32)),
        ITy::Scalar(1) => TyKind::Scalar(Scalar::Uint(UintTy::U8)),
        ITy::Scalar(2) => TyKind::Scalar(Scalar::Bool),
        ITy::Scalar(_) => TyKind::Scalar(Scalar::Float(FloatTy::F64)),
        ITy::Tuple(a) => TyKind::Tuple(a.len(), subst_c(a)),
        ITy::Array(x, c) => TyKind::Array(ty_c(x), ct_c(c)),
        ITy::Slice(x) => TyKind::Slice(ty_c(x)),
        ITy::Raw(mu, x) => TyKind::Raw(m(*mu), ty_c(x)),
        ITy::Ref(mu, l, x) => TyKind::Ref(m(*mu), lt_c(l), ty_c(x)),
        ITy::OpaqueTy(id, a) => TyKind::OpaqueType(OpaqueTyId(rid(*id)), subst_c(a)),
        ITy::FnDef(id, a) => TyKind::FnDef(FnDefId(rid(*id)), subst_c(a)),
        ITy::Str => TyKind::Str,
        ITy::Never => TyKind::Never,
        ITy::Closure(id, a) => TyKind::Closure(ClosureId(rid(*id)), subst_c(a)),
        ITy::Coroutine(id, a) => TyKind::Coroutine(CoroutineId(rid(*id)), subst_c(a)),
        ITy::CoroutineWitness(id, a) => TyKind::CoroutineWitness(CoroutineId(rid(*id)), subst_c(a)),
        ITy::Foreign(id) => TyKind::Foreign(ForeignDefId(rid(*id))),
        ITy::Error => TyKind::Error,
        ITy::Ph(u, k) => TyKind::Placeholder(ph(*u, *k)),
        ITy::Dyn(bounds, l) => {
            let qwcs = QuantifiedWhereClauses::from_iter(i, bounds.iter().map(|(n, w)| Binders::new(kinds_c(&vec![VK::Lt; *n]), wc_c(w))));
            TyKind::Dyn(DynTy { bounds: Binders::new(kinds_c(&[VK::Ty]), qwcs), lifetime: lt_c(l) })
        }
        ITy::AliasProj(id, a) => TyKind::Alias(AliasTy::Projection(ProjectionTy { associated_ty_id: AssocTypeId(rid(*id)), substitution: subst_c(a) })),
        ITy::AliasOpaque(id, a) => TyKind::Alias(AliasTy::Opaque(OpaqueTy { opaque_ty_id: OpaqueTyId(rid(*id)), substitution: subst_c(a) })),
        ITy::Fn(n, a) => TyKind::Function(FnPointer { num_binders: *n, sig: FnSig { abi: ChalkFnAbi::Rust, safety: Safety::Safe, variadic: false }, substitution: FnSubst(subst_c(a)) }),
        ITy::Bound(d, k) => TyKind::BoundVar(bv(*d, *k)),
        ITy::Infer(v, k) => TyKind::InferenceVar(
            InferenceVar::from(*v),
            match k {
                0 => TyVariableKind::General,
                1 => TyVariableKind::Integer,
                _ => TyVariableKind::Float,
            },
        ),
    }
    .intern(i)
}

pub fn goal_c(g: &IGoal) -> Goal<I> {
    let i = ChalkIr;
    match g {
        IGoal::Holds(w) => GoalData::DomainGoal(DomainGoal::Holds(wc_c(w))),
        IGoal::WfTy(t) => GoalData::DomainGoal(DomainGoal::WellFormed(WellFormed::Ty(ty_c(t)))),
        IGoal::FromEnvTy(t) => GoalData::DomainGoal(DomainGoal::FromEnv(FromEnv::Ty(ty_c(t)))),
        IGoal::IsLocal(t) => GoalData::DomainGoal(DomainGoal::IsLocal(ty_c(t))),
        IGoal::Eq(a, b) => GoalData::EqGoal(EqGoal { a: arg_c(a), b: arg_c(b) }),
        IGoal::Subtype(a, b) => GoalData::SubtypeGoal(SubtypeGoal { a: ty_c(a), b: ty_c(b) }),
        IGoal::All(gs) => GoalData::All(Goals::from_iter(i, gs.iter().map(goal_c))),
        IGoal::Not(g) => GoalData::Not(goal_c(g)),
        IGoal::Implies(cs, g) => GoalData::Implies(ProgramClauses::from_iter(i, cs.iter().map(clause_c)), goal_c(g)),
        IGoal::Quant(fa, kinds, g) => GoalData::Quantified(if *fa { QuantifierKind::ForAll } else { QuantifierKind::Exists }, Binders::new(kinds_c(kinds), goal_c(g))),
        IGoal::CannotProve => GoalData::CannotProve,
    }
    .intern(i)
}

pub fn clause_c(c: &IClause) -> ProgramClause<I> {
    let i = ChalkIr;
    let imp = ProgramClauseImplication {
        consequence: DomainGoal::Holds(wc_c(&c.consequence)),
        conditions: Goals::from_iter(i, c.conditions.iter().map(goal_c)),
        constraints: Constraints::empty(i),
        priority: if c.high { ClausePriority::High } else { ClausePriority::Low },
    };
    ProgramClauseData(Binders::new(kinds_c(&c.kinds), imp)).intern(i)
}

// ---------------------------------------------------------------------------------------------
// reference operations on the mirror: a generic map over variables that knows the binder depth

pub enum VarRepl {
    Ty(ITy),
    Lt(ILt),
    Ct(ICt),
}

/// `f(kind, debruijn, index, depth)` is called for every bound-variable occurrence (free or not) and returns its
/// replacement; `depth` = number of binders between the occurrence and the root.
pub struct Mapper<'a> {
    pub f: &'a dyn Fn(VK, usize, usize, usize) -> VarRepl,
}

impl<'a> Mapper<'a> {
    pub fn lt(&self, l: &ILt, d: usize) -> ILt {
        match l {
            ILt::Bound(db, i) => match (self.f)(VK::Lt, *db, *i, d) {
                VarRepl::Lt(x) => x,
                _ => panic!("kind mismatch in reference substitution"),
            },
            o => o.clone(),
        }
    }
    pub fn ct(&self, c: &ICt, d: usize) -> ICt {
        match c {
            ICt::Bound(db, i) => match (self.f)(VK::Ct, *db, *i, d) {
                VarRepl::Ct(x) => x,
                _ => panic!("kind mismatch in reference substitution"),
            },
            o => o.clone(),
        }
    }
    pub fn arg(&self, a: &IArg, d: usize) -> IArg {
        match a {
            IArg::Ty(t) => IArg::Ty(self.ty(t, d)),
            IArg::Lt(l) => IArg::Lt(self.lt(l, d)),
            IArg::Ct(c) => IArg::Ct(self.ct(c, d)),
        }
    }
    fn args(&self, a: &[IArg], d: usize) -> Vec<IArg> {
        a.iter().map(|x| self.arg(x, d)).collect()
    }
    pub fn wc(&self, w: &IWc, d: usize) -> IWc {
        match w {
            IWc::Implemented(t, a) => IWc::Implemented(*t, self.args(a, d)),
            IWc::AliasEq(t, a, ty) => IWc::AliasEq(*t, self.args(a, d), self.ty(ty, d)),
            IWc::LtOutlives(a, b) => IWc::LtOutlives(self.lt(a, d), self.lt(b, d)),
            IWc::TyOutlives(t, l) => IWc::TyOutlives(self.ty(t, d), self.lt(l, d)),
        }
    }
    pub fn ty(&self, t: &ITy, d: usize) -> ITy {
        match t {
            ITy::Bound(db, i) => match (self.f)(VK::Ty, *db, *i, d) {
                VarRepl::Ty(x) => x,
                _ => panic!("kind mismatch in reference substitution"),
            },
            ITy::Adt(id, a) => ITy::Adt(*id, self.args(a, d)),
            ITy::Assoc(id, a) => ITy::Assoc(*id, self.args(a, d)),
            ITy::Tuple(a) => ITy::Tuple(self.args(a, d)),
            ITy::Array(x, c) => ITy::Array(Box::new(self.ty(x, d)), self.ct(c, d)),
            ITy::Slice(x) => ITy::Slice(Box::new(self.ty(x, d))),
            ITy::Raw(m, x) => ITy::Raw(*m, Box::new(self.ty(x, d))),
            ITy::Ref(m, l, x) => ITy::Ref(*m, self.lt(l, d), Box::new(self.ty(x, d))),
            ITy::OpaqueTy(id, a) => ITy::OpaqueTy(*id, self.args(a, d)),
            ITy::FnDef(id, a) => ITy::FnDef(*id, self.args(a, d)),
            ITy::Closure(id, a) => ITy::Closure(*id, self.args(a, d)),
            ITy::Coroutine(id, a) => ITy::Coroutine(*id, self.args(a, d)),
            ITy::CoroutineWitness(id, a) => ITy::CoroutineWitness(*id, self.args(a, d)),
            ITy::Dyn(bounds, l) => ITy::Dyn(bounds.iter().map(|(n, w)| (*n, self.wc(w, d + 2))).collect(), self.lt(l, d)),
            ITy::AliasProj(id, a) => ITy::AliasProj(*id, self.args(a, d)),
            ITy::AliasOpaque(id, a) => ITy::AliasOpaque(*id, self.args(a, d)),
            ITy::Fn(n, a) => ITy::Fn(*n, self.args(a, d + 1)),
            o => o.clone(),
        }
    }
    pub fn goal(&self, g: &IGoal, d: usize) -> IGoal {
        match g {
            IGoal::Holds(w) => IGoal::Holds(self.wc(w, d)),
            IGoal::WfTy(t) => IGoal::WfTy(self.ty(t, d)),
            IGoal::FromEnvTy(t) => IGoal::FromEnvTy(self.ty(t, d)),
            IGoal::IsLocal(t) => IGoal::IsLocal(self.ty(t, d)),
            IGoal::Eq(a, b) => IGoal::Eq(self.arg(a, d), self.arg(b, d)),
            IGoal::Subtype(a, b) => IGoal::Subtype(self.ty(a, d), self.ty(b, d)),
            IGoal::All(gs) => IGoal::All(gs.iter().map(|g| self.goal(g, d)).collect()),
            IGoal::Not(g) => IGoal::Not(Box::new(self.goal(g, d))),
            IGoal::Implies(cs, g) => IGoal::Implies(cs.iter().map(|c| self.clause(c, d)).collect(), Box::new(self.goal(g, d))),
            IGoal::Quant(fa, k, g) => IGoal::Quant(*fa, k.clone(), Box::new(self.goal(g, d + 1))),
            IGoal::CannotProve => IGoal::CannotProve,
        }
    }
    pub fn clause(&self, c: &IClause, d: usize) -> IClause {
        IClause { kinds: c.kinds.clone(), consequence: self.wc(&c.consequence, d + 1), conditions: c.conditions.iter().map(|g| self.goal(g, d + 1)).collect(), high: c.high }
    }
}

fn var(kind: VK, db: usize, i: usize) -> VarRepl {
    match kind {
        VK::Ty => VarRepl::Ty(ITy::Bound(db, i)),
        VK::Lt => VarRepl::Lt(ILt::Bound(db, i)),
        VK::Ct => VarRepl::Ct(ICt::Bound(db, i)),
    }
}

/// Reference `shifted_in` by `by` levels: free variables (debruijn >= depth) move up, bound ones stay.
pub fn shift_fn(by: usize) -> impl Fn(VK, usize, usize, usize) -> VarRepl {
    move |k, db, i, d| if db >= d { var(k, db + by, i) } else { var(k, db, i) }
}

/// Reference `shifted_out` by one level; `None` (encoded by usize::MAX) when a variable of the removed level occurs.
pub fn shift_out_fn() -> impl Fn(VK, usize, usize, usize) -> VarRepl {
    move |k, db, i, d| if db >= d { var(k, db.wrapping_sub(1), i) } else { var(k, db, i) }
}

pub fn has_level0_free(t: &ITy) -> bool {
    let found = std::cell::Cell::new(false);
    let f = |k: VK, db: usize, i: usize, d: usize| {
        if db == d {
            found.set(true);
        }
        var(k, db, i)
    };
    Mapper { f: &f }.ty(t, 0);
    found.get()
}

/// Reference substitution eliminating the innermost binder: variables of that binder are replaced by the
/// parameters (shifted in by the depth of the occurrence), outer free variables move down one level.
pub fn subst_fn<'a>(params: &'a [IArg]) -> impl Fn(VK, usize, usize, usize) -> VarRepl + 'a {
    move |k, db, i, d| {
        if db < d {
            var(k, db, i)
        } else if db > d {
            var(k, db - 1, i)
        } else {
            let sh = shift_fn(d);
            let m = Mapper { f: &sh };
            match (&params[i], k) {
                (IArg::Ty(t), VK::Ty) => VarRepl::Ty(m.ty(t, 0)),
                (IArg::Lt(l), VK::Lt) => VarRepl::Lt(m.lt(l, 0)),
                (IArg::Ct(c), VK::Ct) => VarRepl::Ct(m.ct(c, 0)),
                _ => panic!("parameter kind mismatch"),
            }
        }
    }
}

// ---------------------------------------------------------------------------------------------
// reference flags (C26): written from the doc comments of `TypeFlags`, occurrence flags only

pub fn ref_flags_lt(l: &ILt) -> TypeFlags {
    match l {
        ILt::Infer(_) => TypeFlags::HAS_RE_INFER | TypeFlags::HAS_FREE_LOCAL_REGIONS | TypeFlags::HAS_FREE_REGIONS,
        ILt::Ph(..) => TypeFlags::HAS_RE_PLACEHOLDER | TypeFlags::HAS_FREE_LOCAL_REGIONS | TypeFlags::HAS_FREE_REGIONS,
        ILt::Static => TypeFlags::HAS_FREE_REGIONS,
        ILt::Bound(..) => TypeFlags::HAS_RE_LATE_BOUND,
        ILt::Erased => TypeFlags::HAS_RE_ERASED,
        ILt::Error => TypeFlags::HAS_RE_ERROR,
    }
}
pub fn ref_flags_ct(c: &ICt) -> TypeFlags {
    match c {
        ICt::Infer(_) => TypeFlags::HAS_CT_INFER,
        ICt::Ph(..) => TypeFlags::HAS_CT_PLACEHOLDER,
        // whatever occurs inside the constant's type occurs inside the enclosing type
        ICt::Typed(code, _) => ref_flags(&const_ty(*code)),
        _ => TypeFlags::empty(),
    }
}
pub fn ref_flags_arg(a: &IArg) -> TypeFlags {
    match a {
        IArg::Ty(t) => ref_flags(t),
        IArg::Lt(l) => ref_flags_lt(l),
        IArg::Ct(c) => ref_flags_ct(c),
    }
}
fn ref_flags_args(a: &[IArg]) -> TypeFlags {
    a.iter().fold(TypeFlags::empty(), |f, x| f | ref_flags_arg(x))
}
pub fn ref_flags_wc(w: &IWc) -> TypeFlags {
    match w {
        IWc::Implemented(_, a) => ref_flags_args(a),
        IWc::AliasEq(_, a, t) => TypeFlags::HAS_TY_PROJECTION | ref_flags_args(a) | ref_flags(t),
        IWc::LtOutlives(a, b) => ref_flags_lt(a) | ref_flags_lt(b),
        IWc::TyOutlives(t, l) => ref_flags(t) | ref_flags_lt(l),
    }
}
pub fn ref_flags(t: &ITy) -> TypeFlags {
    match t {
        ITy::Adt(_, a) | ITy::Assoc(_, a) | ITy::Tuple(a) | ITy::OpaqueTy(_, a) | ITy::FnDef(_, a) | ITy::Closure(_, a) | ITy::Coroutine(_, a) | ITy::CoroutineWitness(_, a) | ITy::Fn(_, a) => ref_flags_args(a),
        ITy::Scalar(_) | ITy::Str | ITy::Never | ITy::Foreign(_) | ITy::Bound(..) => TypeFlags::empty(),
        ITy::Array(x, c) => ref_flags(x) | ref_flags_ct(c),
        ITy::Slice(x) | ITy::Raw(_, x) => ref_flags(x),
        ITy::Ref(_, l, x) => ref_flags_lt(l) | ref_flags(x),
        ITy::Error => TypeFlags::HAS_ERROR,
        ITy::Ph(..) => TypeFlags::HAS_TY_PLACEHOLDER,
        ITy::Dyn(bounds, l) => bounds.iter().fold(ref_flags_lt(l), |f, (_, w)| f | ref_flags_wc(w)),
        ITy::AliasProj(_, a) => TypeFlags::HAS_TY_PROJECTION | ref_flags_args(a),
        ITy::AliasOpaque(_, a) => TypeFlags::HAS_TY_OPAQUE | ref_flags_args(a),
        ITy::Infer(..) => TypeFlags::HAS_TY_INFER,
    }
}

pub fn head_name(t: &ITy) -> &'static str {
    match t {
        ITy::Adt(..) => "adt",
        ITy::Assoc(..) => "assoc",
        ITy::Scalar(_) => "scalar",
        ITy::Tuple(_) => "tuple",
        ITy::Array(..) => "array",
        ITy::Slice(_) => "slice",
        ITy::Raw(..) => "raw",
        ITy::Ref(..) => "ref",
        ITy::OpaqueTy(..) => "opaque-ty",
        ITy::FnDef(..) => "fn-def",
        ITy::Str => "str",
        ITy::Never => "never",
        ITy::Closure(..) => "closure",
        ITy::Coroutine(..) => "coroutine",
        ITy::CoroutineWitness(..) => "coroutine-witness",
        ITy::Foreign(_) => "foreign",
        ITy::Error => "error",
        ITy::Ph(..) => "placeholder",
        ITy::Dyn(..) => "dyn",
        ITy::AliasProj(..) => "alias-projection",
        ITy::AliasOpaque(..) => "alias-opaque",
        ITy::Fn(..) => "fn-pointer",
        ITy::Bound(..) => "bound-var",
        ITy::Infer(..) => "inference-var",
    }
}
