//! Helpers shared by the per-property monitors.
use crate::case::CaseOut;
use crate::drive::*;
use crate::json::J;
use crate::model::*;
use chalk_integration::SolverChoice;

pub struct SolveRec {
    pub outcome: Outcome,
    /// translated answer (Err: translation failed — e.g. a type outside the model's vocabulary)
    pub ans: Result<MAnswer, String>,
    pub calls: u64,
    pub nonground_coinductive: bool,
    pub shown: String,
    pub panic_loc: String,
    /// (SLG only, hook H4) after the solve the forest holds a complete table whose answer is still conditional on
    /// delayed subgoals — the observed root-cause condition of finding F11
    pub stale_delayed_table: bool,
}

/// F11's root-cause condition, observed through hook H4.
pub fn slg_stale_table(s: &mut chalk_engine::solve::SLGSolver<I>) -> bool {
    s.verif_tables().iter().any(|t| t.answers_with_delayed_subgoals > 0 && t.strands == 0)
}

/// Fresh solver + fresh FaultDb, one `solve`, answer translated to the model's vocabulary.
pub fn solve_translated(l: &Loaded, choice: SolverChoice, peeled: &Peeled, budget: u64) -> SolveRec {
    let db = FaultDb::new(&*l.program, solver_name(&choice));
    db.budget.set(budget);
    if let SolverChoice::SLG { max_size, expected_answers } = choice {
        let mut s = chalk_engine::solve::SLGSolver::<I>::new(max_size, expected_answers);
        let outcome = solve(&mut s, &db, &peeled.goal);
        let mut rec = finish(l, peeled, outcome, &db);
        rec.stale_delayed_table = slg_stale_table(&mut s);
        return rec;
    }
    let mut s = choice.into_solver();
    let outcome = solve(&mut *s, &db, &peeled.goal);
    finish(l, peeled, outcome, &db)
}

pub fn finish(l: &Loaded, peeled: &Peeled, outcome: Outcome, db: &FaultDb<'_>) -> SolveRec {
    let shown = outcome.show();
    let panic_loc = if matches!(outcome, Outcome::Panic(_)) { last_panic_loc() } else { String::new() };
    let ans = match &outcome {
        Outcome::Answer(a) => translate(&l.program, peeled, a),
        other => Err(other.show()),
    };
    SolveRec { outcome, ans, calls: db.calls.get(), nonground_coinductive: db.nonground_coinductive.get(), shown, panic_loc, stale_delayed_table: false }
}

pub fn detail(program: &str, goal: &str, solver: &SolverChoice) -> J {
    J::obj().set("program", program).set("goal", goal).set("solver", solver_desc(solver))
}

/// Known-finding signature for a chalk panic, derived from the panic message and call site.
pub fn panic_signature(solver: &str, msg: &str, goal: Option<&MGoal>, prog: Option<&MProgram>) -> Option<String> {
    if solver == "slg" && msg.contains("Negative subgoal had delayed_subgoals") {
        // F8: requires that the goal really negates a coinductive-trait predicate
        if let (Some(g), Some(p)) = (goal, prog) {
            if negates_coinductive(g, p) {
                return Some("slg:negative-coinductive-delayed".into());
            }
            return None;
        }
        return Some("slg:negative-coinductive-delayed".into());
    }
    None
}

/// Does the goal negate a predicate whose proof can reach (through impl where-clauses) a coinductive / auto trait?
/// That is the situation in which SLG's negative subgoal ends up with delayed subgoals.
fn negates_coinductive(g: &MGoal, p: &MProgram) -> bool {
    fn reaches_coinductive(p: &MProgram, start: &str) -> bool {
        let mut seen: Vec<String> = vec![];
        let mut work = vec![start.to_string()];
        while let Some(t) = work.pop() {
            if seen.contains(&t) {
                continue;
            }
            seen.push(t.clone());
            if let Some(tr) = p.traits.iter().find(|x| x.name == t) {
                if tr.coinductive || tr.auto {
                    return true;
                }
            }
            for im in p.impls.iter().filter(|im| im.head.tr == t) {
                for w in &im.wheres {
                    work.push(w.tr.clone());
                }
            }
        }
        false
    }
    match g {
        MGoal::Not(inner) => {
            let mut ps = vec![];
            goal_preds(inner, &mut ps);
            ps.iter().any(|q| reaches_coinductive(p, &q.tr))
        }
        MGoal::Forall(_, _, g) | MGoal::Exists(_, _, g) | MGoal::If(_, g) => negates_coinductive(g, p),
        MGoal::And(gs) => gs.iter().any(|g| negates_coinductive(g, p)),
        _ => false,
    }
}

/// Record an outcome that is not an answer. Panics of chalk are C09's subject; in other properties they are
/// counted, and the solve is not judged.
pub fn note_non_answer(out: &mut CaseOut, rec: &SolveRec) {
    match &rec.outcome {
        Outcome::Panic(_) => out.count("solve-panicked(not judged here; see C09)"),
        Outcome::Budget => out.count("solve-over-budget(not judged here; see C09)"),
        Outcome::Injected => out.count("injected"),
        Outcome::Answer(_) => {}
    }
}
