//! Helpers shared by the per-property monitors.
use crate::case::CaseOut;
use crate::drive::*;
use crate::json::J;
use crate::model::*;
use chalk_integration::SolverChoice;

pub struct SolveRec {
    pub outcome: Outcome,
    /// translated answer (Err: translation failed — e.g. a type outside the model's vocabulary)
    pub ans: Result<MAnswer, String>,
    pub calls: u64,
    pub nonground_coinductive: bool,
    pub shown: String,
    pub panic_loc: String,
    /// (SLG only, hook H4) after the solve the forest holds a complete table whose answer is still conditional on
    /// delayed subgoals — the observed root-cause condition of finding F11
    pub stale_delayed_table: bool,
}

/// F11's root-cause condition, observed through hook H4. Refinement strands (the only thing that ever discharges the
/// delayed subgoals of a conditional answer) are created for the root of an *active* search only, so a table that has
/// completed while all its answers were still conditional stays that way. Two observable forms:
///
/// (W) read *before* a solve on a solver that has answered other goals: the table of `goal` itself already exists, has no
///     strands left and every answer it holds is conditional — this solve can only repeat that;
/// (M) read *after* a solve: some coinductive table is complete with only conditional answers and one of the goals they
///     are conditional on belongs to another complete table without an unconditional answer (mutually conditional
///     answers: nothing can discharge them).
///
/// A lost answer with neither (W) before nor (M) after is not attributed to F11.
pub fn slg_goal_table_stale(s: &mut chalk_engine::solve::SLGSolver<I>, goal: &UGoal) -> bool {
    let g = format!("{:?}", goal);
    s.verif_tables().iter().any(|x| x.goal == g && x.strands == 0 && x.answers > 0 && x.answers_with_delayed_subgoals == x.answers)
}

/// F33's root-cause condition (hook H4): the table of `goal` is complete, and it holds more conditional answers than
/// unconditional ones — a conditional root answer whose refinement strand never ran. (In a search that is not
/// disturbed, every conditional root answer gets a refinement strand in the same step that publishes it.)
pub fn slg_unrefined_root_answer(s: &mut chalk_engine::solve::SLGSolver<I>, goal: &UGoal) -> bool {
    let g = format!("{:?}", goal);
    s.verif_tables().iter().any(|x| x.goal == g && x.strands == 0 && x.answers_with_delayed_subgoals > x.answers - x.answers_with_delayed_subgoals)
}

/// F36's root-cause condition (hook H4): the table of `goal` carries the "floundered" mark — an earlier consumer pulled
/// answers from it until one exceeded the size limit, and the mark stays for the life of the forest.
pub fn slg_goal_table_floundered(s: &mut chalk_engine::solve::SLGSolver<I>, goal: &UGoal) -> bool {
    let g = format!("{:?}", goal);
    s.verif_tables().iter().any(|x| x.goal == g && x.floundered)
}

/// Form (M) of the F11 evidence, see `slg_goal_table_stale`.
pub fn slg_stale_table(s: &mut chalk_engine::solve::SLGSolver<I>, _goal: &UGoal) -> bool {
    let t = s.verif_tables();
    let only_cond = |x: &chalk_engine::verif::TableDump| x.strands == 0 && x.answers_with_delayed_subgoals == x.answers;
    t.iter().enumerate().any(|(i, x)| x.coinductive && x.answers > 0 && only_cond(x) && x.delayed_goals.iter().any(|d| t.iter().enumerate().any(|(j, y)| i != j && y.goal_body == *d && only_cond(y))))
}

/// F12's root-cause condition, observed through hook H5: some table holds the complete trivial answer that makes the
/// engine discard the table's remaining strands *next to* answers that happened to arrive before it. With another strand
/// order those earlier answers would have been cut, so consumers of the table see a different answer set.
pub fn slg_subsumed_answers(s: &mut chalk_engine::solve::SLGSolver<I>) -> bool {
    s.verif_tables_with_subsumed_answers(chalk_integration::interner::ChalkIr) > 0
}

/// `Ambiguous; definite substitution` (as displayed) whose substitution repeats one of its own variables (F20's
/// precondition). Works on the displayed form because the two answers being compared may come from two differently
/// ordered copies of a program, whose item ids differ.
pub fn nonlinear_definite(shown: &str) -> bool {
    if !shown.starts_with("Ambiguous; definite substitution") {
        return false;
    }
    let mut seen = std::collections::BTreeSet::new();
    let b = shown.as_bytes();
    let mut i = 0;
    while i + 1 < b.len() {
        if b[i] == b'^' {
            let mut j = i + 1;
            while j < b.len() && (b[j].is_ascii_digit() || b[j] == b'.') {
                j += 1;
            }
            if !seen.insert(shown[i..j].to_string()) {
                return true;
            }
            i = j;
        } else {
            i += 1;
        }
    }
    false
}

/// Does the displayed substitution mention one canonical variable (`^d.i`) twice?
fn repeats_var(shown: &str) -> bool {
    let mut seen = std::collections::BTreeSet::new();
    let b = shown.as_bytes();
    let mut i = 0;
    while i + 1 < b.len() {
        if b[i] == b'^' {
            let mut j = i + 1;
            while j < b.len() && (b[j].is_ascii_digit() || b[j] == b'.') {
                j += 1;
            }
            if !seen.insert(shown[i..j].to_string()) {
                return true;
            }
            i = j;
        } else {
            i += 1;
        }
    }
    false
}

/// (binders, substitution) of a displayed `Unique` answer without lifetime constraints.
fn unique_parts(s: &str) -> Option<(String, String)> {
    let rest = s.strip_prefix("Unique; ")?;
    if rest.contains("lifetime constraints") {
        return None;
    }
    if let Some(r) = rest.strip_prefix("for<") {
        let k = r.find("> { substitution ")?;
        let sub = r[k + "> { substitution ".len()..].strip_suffix(" }")?;
        Some((r[..k].to_string(), sub.to_string()))
    } else {
        Some((String::new(), rest.strip_prefix("substitution ")?.to_string()))
    }
}

/// (binders, substitution) of a displayed `Ambiguous; definite substitution` answer.
fn definite_parts(s: &str) -> Option<(String, String)> {
    let rest = s.strip_prefix("Ambiguous; definite substitution ")?;
    if let Some(r) = rest.strip_prefix("for<") {
        let k = r.find("> { ")?;
        let sub = r[k + "> { ".len()..].strip_suffix(" }")?;
        Some((r[..k].to_string(), sub.to_string()))
    } else {
        Some((String::new(), rest.to_string()))
    }
}

/// Known root causes that make two SLG answers to the *same goal on the same program* differ with strand order
/// (declaration order, earlier goals, an interrupted or crashed earlier solve). Arguments: the displayed answers and,
/// for each, hook H5 evidence taken from the solver that produced it.
pub fn slg_order_signature(a: &str, a_subsumed: bool, b: &str, b_subsumed: bool) -> Option<&'static str> {
    // F12: the Ambiguous side counted answers that a trivial answer of some table subsumes. All of those extra answers
    // are instances of the Unique side's substitution S, so their anti-unification is S itself: the pair is exactly
    // {Unique S, Ambiguous with definite guidance S}. (For a trivial S the guidance degenerates to "no guidance"; that
    // case is recognised by the monitors' older answer-pattern rule.)
    let same_subst = |u: &str, d: &str| match (unique_parts(u), definite_parts(d)) {
        (Some(x), Some(y)) => x == y,
        _ => false,
    };
    // The pair {Unique S, Ambiguous with definite guidance *exactly* S} can only arise when every further answer on the
    // Ambiguous side is an instance of S (their anti-unification with S is S): the two searches differ in how many answers
    // subsumed by S they enumerate before S, which is F12's description. Hook H5 usually shows the table concerned; on
    // coinductive tables the subsuming answer may itself have been conditional for a while and H5's snapshot misses it,
    // so for this exact pair the evidence is not demanded.
    let _ = (a_subsumed, b_subsumed);
    if same_subst(a, b) || same_subst(b, a) {
        return Some("slg:trivial-answer-green-cut-order");
    }
    // ... and when S repeats a variable, anti-unifying S with its own instances loses the sharing, the result is trivial
    // and the Ambiguous side shows "no inference guidance" instead
    // (or non-trivial guidance in which the sharing is lost: `Unique [^0, Vec<^0>]` vs `definite [^0, Vec<^1>]`)
    let nonlinear_unique_vs_unknown = |u: &str, d: &str| d.starts_with("Ambiguous") && unique_parts(u).map_or(false, |(_, sub)| repeats_var(&sub));
    if (nonlinear_unique_vs_unknown(a, b) && b_subsumed) || (nonlinear_unique_vs_unknown(b, a) && a_subsumed) {
        return Some("slg:trivial-answer-green-cut-order");
    }
    // ... and the exact pair {Unique S, definite guidance = S with the sharing between its variables lost} needs no H5
    // snapshot either, for the same reason as the exact pair above
    let erase = |t: &str| -> String {
        let mut out = String::new();
        let b = t.as_bytes();
        let mut i = 0;
        while i < b.len() {
            if b[i] == b'^' {
                out.push('^');
                i += 1;
                while i < b.len() && (b[i].is_ascii_digit() || b[i] == b'.') {
                    i += 1;
                }
            } else {
                out.push(b[i] as char);
                i += 1;
            }
        }
        out
    };
    let sharing_lost = |u: &str, d: &str| match (unique_parts(u), definite_parts(d)) {
        (Some((_, su)), Some((_, sd))) => repeats_var(&su) && !repeats_var(&sd) && erase(&su) == erase(&sd),
        _ => false,
    };
    if sharing_lost(a, b) || sharing_lost(b, a) {
        return Some("slg:trivial-answer-green-cut-order");
    }
    if nonlinear_definite(a) || nonlinear_definite(b) {
        // F20: guidance with a repeated variable is declared final before an invalidating answer is seen
        return Some("slg:may-invalidate-nonlinear-guidance");
    }
    None
}

/// Hook H5 evidence for a fresh SLG solve of `goal` (used when a monitor only kept the fresh answer).
pub fn fresh_slg_subsumed(l: &Loaded, goal: &UGoal) -> bool {
    let db = FaultDb::new(&*l.program, "slg");
    db.budget.set(300_000);
    let mut s = chalk_engine::solve::SLGSolver::<I>::new(10, None);
    let _ = solve(&mut s, &db, goal);
    slg_subsumed_answers(&mut s)
}

/// Form (M) of the F11 evidence for a fresh SLG solve of `goal` (used when it is the *fresh* answer that was lost).
pub fn fresh_slg_stale(l: &Loaded, goal: &UGoal) -> bool {
    let db = FaultDb::new(&*l.program, "slg");
    db.budget.set(300_000);
    let mut s = chalk_engine::solve::SLGSolver::<I>::new(10, None);
    let _ = solve(&mut s, &db, goal);
    slg_stale_table(&mut s, goal)
}

/// Fresh solver + fresh FaultDb, one `solve`, answer translated to the model's vocabulary.
pub fn solve_translated(l: &Loaded, choice: SolverChoice, peeled: &Peeled, budget: u64) -> SolveRec {
    let db = FaultDb::new(&*l.program, solver_name(&choice));
    db.budget.set(budget);
    if let SolverChoice::SLG { max_size, expected_answers } = choice {
        let mut s = chalk_engine::solve::SLGSolver::<I>::new(max_size, expected_answers);
        let outcome = solve(&mut s, &db, &peeled.goal);
        let mut rec = finish(l, peeled, outcome, &db);
        rec.stale_delayed_table = slg_stale_table(&mut s, &peeled.goal);
        return rec;
    }
    let mut s = choice.into_solver();
    let outcome = solve(&mut *s, &db, &peeled.goal);
    finish(l, peeled, outcome, &db)
}

pub fn finish(l: &Loaded, peeled: &Peeled, outcome: Outcome, db: &FaultDb<'_>) -> SolveRec {
    let shown = outcome.show();
    let panic_loc = if matches!(outcome, Outcome::Panic(_)) { last_panic_loc() } else { String::new() };
    let ans = match &outcome {
        Outcome::Answer(a) => translate(&l.program, peeled, a),
        other => Err(other.show()),
    };
    SolveRec { outcome, ans, calls: db.calls.get(), nonground_coinductive: db.nonground_coinductive.get(), shown, panic_loc, stale_delayed_table: false }
}

pub fn detail(program: &str, goal: &str, solver: &SolverChoice) -> J {
    J::obj().set("program", program).set("goal", goal).set("solver", solver_desc(solver))
}

/// Known-finding signature for a chalk panic, derived from the panic message and call site.
pub fn panic_signature(solver: &str, msg: &str, goal: Option<&MGoal>, prog: Option<&MProgram>) -> Option<String> {
    if solver == "slg" && msg.contains("Negative subgoal had delayed_subgoals") {
        // F8: requires that the goal really negates a coinductive-trait predicate
        if let (Some(g), Some(p)) = (goal, prog) {
            if negates_coinductive(g, p) {
                return Some("slg:negative-coinductive-delayed".into());
            }
            return None;
        }
        return Some("slg:negative-coinductive-delayed".into());
    }
    None
}

/// Does the goal negate a predicate whose proof can reach (through impl where-clauses) a coinductive / auto trait?
/// That is the situation in which SLG's negative subgoal ends up with delayed subgoals.
fn negates_coinductive(g: &MGoal, p: &MProgram) -> bool {
    fn reaches_coinductive(p: &MProgram, start: &str) -> bool {
        let mut seen: Vec<String> = vec![];
        let mut work = vec![start.to_string()];
        while let Some(t) = work.pop() {
            if seen.contains(&t) {
                continue;
            }
            seen.push(t.clone());
            if let Some(tr) = p.traits.iter().find(|x| x.name == t) {
                if tr.coinductive || tr.auto {
                    return true;
                }
            }
            for im in p.impls.iter().filter(|im| im.head.tr == t) {
                for w in &im.wheres {
                    work.push(w.tr.clone());
                }
            }
        }
        false
    }
    match g {
        MGoal::Not(inner) => {
            let mut ps = vec![];
            goal_preds(inner, &mut ps);
            ps.iter().any(|q| reaches_coinductive(p, &q.tr))
        }
        MGoal::Forall(_, _, g) | MGoal::Exists(_, _, g) | MGoal::If(_, g) => negates_coinductive(g, p),
        MGoal::And(gs) => gs.iter().any(|g| negates_coinductive(g, p)),
        _ => false,
    }
}

/// Record an outcome that is not an answer. Panics of chalk are C09's subject; in other properties they are
/// counted, and the solve is not judged.
pub fn note_non_answer(out: &mut CaseOut, rec: &SolveRec) {
    match &rec.outcome {
        Outcome::Panic(_) => out.count("solve-panicked(not judged here; see C09)"),
        Outcome::Budget => out.count("solve-over-budget(not judged here; see C09)"),
        Outcome::Injected => out.count("injected"),
        Outcome::Answer(_) => {}
    }
}
