//! Shared monitors for C27: drop accounting through a side table of plain counters (no pointers to elements, so the
//! table cannot hide leaks from Miri / LSan / memcheck) and a counting global allocator (live heap bytes).
use std::alloc::{GlobalAlloc, Layout, System};
use std::cell::RefCell;
use std::sync::atomic::{AtomicBool, AtomicIsize, Ordering};

pub struct Counting;
static LIVE_BYTES: AtomicIsize = AtomicIsize::new(0);
static LIVE_BLOCKS: AtomicIsize = AtomicIsize::new(0);
static TRACK: AtomicBool = AtomicBool::new(true);

unsafe impl GlobalAlloc for Counting {
    unsafe fn alloc(&self, l: Layout) -> *mut u8 {
        let p = System.alloc(l);
        if !p.is_null() && TRACK.load(Ordering::Relaxed) {
            LIVE_BYTES.fetch_add(l.size() as isize, Ordering::Relaxed);
            LIVE_BLOCKS.fetch_add(1, Ordering::Relaxed);
        }
        p
    }
    unsafe fn dealloc(&self, p: *mut u8, l: Layout) {
        if TRACK.load(Ordering::Relaxed) {
            LIVE_BYTES.fetch_sub(l.size() as isize, Ordering::Relaxed);
            LIVE_BLOCKS.fetch_sub(1, Ordering::Relaxed);
        }
        System.dealloc(p, l)
    }
    unsafe fn realloc(&self, p: *mut u8, l: Layout, new_size: usize) -> *mut u8 {
        let q = System.realloc(p, l, new_size);
        if !q.is_null() && TRACK.load(Ordering::Relaxed) {
            LIVE_BYTES.fetch_add(new_size as isize - l.size() as isize, Ordering::Relaxed);
        }
        q
    }
}

pub fn live() -> (isize, isize) {
    (LIVE_BYTES.load(Ordering::Relaxed), LIVE_BLOCKS.load(Ordering::Relaxed))
}

thread_local! {
    /// drops[id] = how many times the element with this id was dropped
    static DROPS: RefCell<Vec<u32>> = RefCell::new(Vec::new());
}

pub fn reset_drops(n: usize) {
    DROPS.with(|d| {
        let mut d = d.borrow_mut();
        d.clear();
        d.resize(n, 0);
    });
}
pub fn note_drop(id: usize) {
    DROPS.with(|d| {
        let mut d = d.borrow_mut();
        if id >= d.len() {
            d.resize(id + 1, 0);
        }
        d[id] += 1;
    });
}
pub fn drops() -> Vec<u32> {
    DROPS.with(|d| d.borrow().clone())
}

/// Marker panic payload (zero-sized: the panic itself allocates nothing that outlives `catch_unwind`).
pub struct Injected;

pub fn quiet_panics() {
    std::panic::set_hook(Box::new(|_| {}));
}

/// Journal the cell about to run (flushed, so that a process abort can be attributed to it).
pub fn cell_begin(desc: &str) {
    use std::io::Write;
    let o = std::io::stdout();
    let mut l = o.lock();
    let _ = writeln!(l, "CELL {}", desc);
    let _ = l.flush();
}
