//! The public route: `Vec<E>: TypeFoldable` / `Box<E>: TypeFoldable` with a folder that fails at a chosen position.
use chalk_integration::interner::ChalkIr;
use chalk_ir::fold::{FallibleTypeFolder, TypeFoldable, TypeSuperFoldable};
use chalk_ir::*;
use memsafe::*;
use std::panic::{catch_unwind, AssertUnwindSafe};

#[global_allocator]
static A: Counting = Counting;

#[derive(Debug)]
struct Tracked {
    id: usize,
    payload: Option<Box<u64>>,
    ty: Option<Ty<ChalkIr>>,
}
impl Drop for Tracked {
    fn drop(&mut self) {
        note_drop(self.id);
    }
}
impl TypeFoldable<ChalkIr> for Tracked {
    fn try_fold_with<E>(self, folder: &mut dyn FallibleTypeFolder<ChalkIr, Error = E>, outer_binder: DebruijnIndex) -> Result<Self, E> {
        let mut s = self;
        let ty = s.ty.take().unwrap();
        // on failure `s` is dropped here: exactly one drop for this element
        let ty2 = ty.try_fold_with(folder, outer_binder)?;
        s.ty = Some(ty2);
        Ok(s)
    }
}

#[derive(Clone, Copy, PartialEq, Debug)]
enum Mode {
    Ok,
    Err,
    Panic,
}

struct Failing {
    seen: usize,
    fail_at: Option<usize>,
    mode: Mode,
}
impl FallibleTypeFolder<ChalkIr> for Failing {
    type Error = ();
    fn as_dyn(&mut self) -> &mut dyn FallibleTypeFolder<ChalkIr, Error = ()> {
        self
    }
    fn try_fold_ty(&mut self, ty: Ty<ChalkIr>, outer_binder: DebruijnIndex) -> Result<Ty<ChalkIr>, ()> {
        let here = self.seen;
        self.seen += 1;
        if Some(here) == self.fail_at {
            match self.mode {
                Mode::Err => return Err(()),
                Mode::Panic => std::panic::panic_any(Injected),
                Mode::Ok => {}
            }
        }
        ty.try_super_fold_with(self, outer_binder)
    }
    fn interner(&self) -> ChalkIr {
        ChalkIr
    }
}

fn elem(id: usize) -> Tracked {
    Tracked { id, payload: Some(Box::new(id as u64)), ty: Some(TyKind::Scalar(Scalar::Bool).intern(ChalkIr)) }
}

fn main() {
    quiet_panics();
    let args: Vec<String> = std::env::args().collect();
    let max_len: usize = args.iter().position(|a| a == "--max-len").and_then(|i| args.get(i + 1)).and_then(|s| s.parse().ok()).unwrap_or(8);
    let mut cells = 0;
    let mut injected = 0;
    let mut violations: Vec<String> = vec![];
    // warm up interner / TLS allocations so that the heap balance below only sees the fold
    let _ = TyKind::Scalar(Scalar::Bool).intern(ChalkIr);
    for len in 0..=max_len {
        for fail_at in std::iter::once(None).chain((0..len).map(Some)) {
            for mode in [Mode::Ok, Mode::Err, Mode::Panic] {
                if fail_at.is_none() != (mode == Mode::Ok) {
                    continue;
                }
                for spare in [0usize, 2] {
                    let desc = format!("Vec<Tracked>::try_fold_with len={} spare={} fail_at={:?} mode={:?}", len, spare, fail_at, mode);
                    cell_begin(&desc);
                    reset_drops(len);
                    let before = live();
                    {
                        let mut v = Vec::with_capacity(len + spare);
                        for i in 0..len {
                            v.push(elem(i));
                        }
                        let mut f = Failing { seen: 0, fail_at, mode };
                        let r = catch_unwind(AssertUnwindSafe(|| v.try_fold_with(&mut f, DebruijnIndex::INNERMOST)));
                        let d = drops();
                        match r {
                            Ok(Ok(out)) => {
                                if mode != Mode::Ok {
                                    violations.push(format!("{}: injected failure swallowed", desc));
                                }
                                if d.iter().take(len).any(|c| *c != 0) {
                                    violations.push(format!("{}: drops on success: {:?}", desc, d));
                                }
                                drop(out);
                            }
                            _ => {
                                injected += 1;
                                if d.iter().take(len).any(|c| *c != 1) || d.len() < len {
                                    violations.push(format!("{}: drop counts {:?}, expected all 1", desc, d));
                                }
                            }
                        }
                    }
                    let after = live();
                    if after != before {
                        violations.push(format!("{}: heap not balanced {:?} -> {:?}", desc, before, after));
                    }
                    let d = drops();
                    if d.iter().take(len).any(|c| *c != 1) {
                        violations.push(format!("{}: final drop counts {:?}", desc, d));
                    }
                    cells += 1;
                }
            }
        }
    }
    for mode in [Mode::Ok, Mode::Err, Mode::Panic] {
        let desc = format!("Box<Tracked>::try_fold_with mode={:?}", mode);
        cell_begin(&desc);
        reset_drops(1);
        let before = live();
        {
            let b = Box::new(elem(0));
            let mut f = Failing { seen: 0, fail_at: if mode == Mode::Ok { None } else { Some(0) }, mode };
            let r = catch_unwind(AssertUnwindSafe(|| b.try_fold_with(&mut f, DebruijnIndex::INNERMOST)));
            match r {
                Ok(Ok(out)) => {
                    if drops()[0] != 0 {
                        violations.push(format!("{}: dropped on success", desc));
                    }
                    drop(out);
                }
                _ => injected += 1,
            }
        }
        let after = live();
        if after != before {
            violations.push(format!("{}: heap not balanced {:?} -> {:?}", desc, before, after));
        }
        if drops()[0] != 1 {
            violations.push(format!("{}: dropped {} times", desc, drops()[0]));
        }
        cells += 1;
    }
    for v in &violations {
        println!("VIOLATION {}", v);
    }
    println!("SUMMARY cells={} failures_injected={} violations={} max_len={}", cells, injected, violations.len(), max_len);
    if !violations.is_empty() {
        std::process::exit(1);
    }
}
