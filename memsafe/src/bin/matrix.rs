//! Fault-enumeration matrix for `fallible_map_vec` / `fallible_map_box` (hook H1):
//! vector lengths x failing position x failure mode x element-type pairs, plus boxes.
use chalk_ir::fold::verif::{fallible_map_box, fallible_map_vec};
use memsafe::*;
use std::panic::{catch_unwind, AssertUnwindSafe};

#[global_allocator]
static A: Counting = Counting;

// --- element types: every element owns a heap allocation and an id; Drop records the id
macro_rules! tracked {
    ($name:ident, $($attr:meta)?) => {
        $(#[$attr])?
        pub struct $name {
            id: usize,
            payload: Option<Box<u64>>,
        }
        impl Drop for $name {
            fn drop(&mut self) {
                note_drop(self.id);
            }
        }
        impl $name {
            #[allow(dead_code)]
            fn new(id: usize) -> Self {
                $name { id, payload: Some(Box::new(id as u64)) }
            }
        }
    };
}
tracked!(Src,);
tracked!(SameLayout,);
tracked!(Aligned16, repr(align(32)));
pub struct Bigger {
    id: usize,
    payload: Option<Box<u64>>,
    _pad: [u64; 3],
}
impl Drop for Bigger {
    fn drop(&mut self) {
        note_drop(self.id);
    }
}
/// zero-sized source / target: identity comes from the position, drops are counted in a global
pub struct Zst;
static ZST_DROPS: std::sync::atomic::AtomicUsize = std::sync::atomic::AtomicUsize::new(0);
impl Drop for Zst {
    fn drop(&mut self) {
        ZST_DROPS.fetch_add(1, std::sync::atomic::Ordering::Relaxed);
    }
}
pub struct Zst2;
impl Drop for Zst2 {
    fn drop(&mut self) {
        ZST_DROPS.fetch_add(1, std::sync::atomic::Ordering::Relaxed);
    }
}

#[derive(Clone, Copy, PartialEq, Debug)]
enum Mode {
    Ok,
    Err,
    Panic,
}

fn take(mut s: Src) -> (usize, Option<Box<u64>>) {
    // move the payload out without running Src's destructor twice: the id is dropped exactly once, by the target
    let p = s.payload.take();
    let id = s.id;
    std::mem::forget(s);
    (id, p)
}

trait Target: Sized {
    const NAME: &'static str;
    fn from_src(s: Src) -> Self;
}
impl Target for SameLayout {
    const NAME: &'static str = "same-layout";
    fn from_src(s: Src) -> Self {
        let (id, payload) = take(s);
        SameLayout { id, payload }
    }
}
impl Target for Aligned16 {
    const NAME: &'static str = "different-alignment";
    fn from_src(s: Src) -> Self {
        let (id, payload) = take(s);
        Aligned16 { id, payload }
    }
}
impl Target for Bigger {
    const NAME: &'static str = "different-size";
    fn from_src(s: Src) -> Self {
        let (id, payload) = take(s);
        Bigger { id, payload, _pad: [7; 3] }
    }
}
impl Target for Src {
    const NAME: &'static str = "identical-type";
    fn from_src(s: Src) -> Self {
        s
    }
}

struct Report {
    cells: usize,
    injected: usize,
    violations: Vec<String>,
}

fn check_counts(desc: &str, len: usize, expect_each: u32, rep: &mut Report) {
    let d = drops();
    for id in 0..len {
        let c = d.get(id).cloned().unwrap_or(0);
        if c != expect_each {
            rep.violations.push(format!("{}: element {} dropped {} time(s), expected {}", desc, id, c, expect_each));
            return;
        }
    }
}

fn vec_case<U: Target>(len: usize, spare: usize, fail_at: Option<usize>, mode: Mode, rep: &mut Report) {
    let desc = format!("vec target={} len={} spare_capacity={} fail_at={:?} mode={:?}", U::NAME, len, spare, fail_at, mode);
    cell_begin(&desc);
    reset_drops(len);
    let before = live();
    {
        let mut v: Vec<Src> = Vec::with_capacity(len + spare);
        for i in 0..len {
            v.push(Src::new(i));
        }
        let mut calls = 0usize;
        let r = catch_unwind(AssertUnwindSafe(|| {
            fallible_map_vec::<Src, U, ()>(v, |s| {
                let here = calls;
                calls += 1;
                if Some(here) == fail_at {
                    match mode {
                        Mode::Err => {
                            drop(s);
                            return Err(());
                        }
                        Mode::Panic => {
                            drop(s);
                            std::panic::panic_any(Injected);
                        }
                        Mode::Ok => {}
                    }
                }
                Ok(U::from_src(s))
            })
        }));
        match (r, fail_at.filter(|f| *f < len && mode != Mode::Ok)) {
            (Ok(Ok(out)), None) => {
                if out.len() != len {
                    rep.violations.push(format!("{}: result has {} elements", desc, out.len()));
                }
                // on success no element is dropped
                check_counts(&format!("{} (before dropping the result)", desc), len, 0, rep);
                drop(out);
                check_counts(&format!("{} (after dropping the result)", desc), len, 1, rep);
            }
            (Ok(Err(())), Some(_)) | (Err(_), Some(_)) => {
                rep.injected += 1;
                // on failure every element is dropped exactly once
                check_counts(&desc, len, 1, rep);
            }
            (Ok(Ok(_)), Some(_)) => rep.violations.push(format!("{}: the injected failure was swallowed", desc)),
            (Ok(Err(())), None) | (Err(_), None) => rep.violations.push(format!("{}: failed although no failure was injected", desc)),
        }
    }
    let after = live();
    if after != before {
        rep.violations.push(format!("{}: heap not balanced: live bytes/blocks {:?} -> {:?} (leak or double free)", desc, before, after));
    }
    rep.cells += 1;
}

fn zst_case(len: usize, fail_at: Option<usize>, mode: Mode, rep: &mut Report) {
    let desc = format!("vec target=zero-sized len={} fail_at={:?} mode={:?}", len, fail_at, mode);
    cell_begin(&desc);
    ZST_DROPS.store(0, std::sync::atomic::Ordering::Relaxed);
    let before = live();
    {
        let v: Vec<Zst> = (0..len).map(|_| Zst).collect();
        let mut calls = 0usize;
        let r = catch_unwind(AssertUnwindSafe(|| {
            fallible_map_vec::<Zst, Zst2, ()>(v, |s| {
                let here = calls;
                calls += 1;
                if Some(here) == fail_at {
                    match mode {
                        Mode::Err => {
                            drop(s);
                            return Err(());
                        }
                        Mode::Panic => {
                            drop(s);
                            std::panic::panic_any(Injected);
                        }
                        Mode::Ok => {}
                    }
                }
                std::mem::forget(s);
                Ok(Zst2)
            })
        }));
        let failing = fail_at.filter(|f| *f < len && mode != Mode::Ok).is_some();
        match r {
            Ok(Ok(out)) if !failing => {
                let d0 = ZST_DROPS.load(std::sync::atomic::Ordering::Relaxed);
                if d0 != 0 {
                    rep.violations.push(format!("{}: {} drops on success", desc, d0));
                }
                drop(out);
            }
            Ok(Err(())) | Err(_) if failing => rep.injected += 1,
            _ => rep.violations.push(format!("{}: unexpected outcome", desc)),
        }
        let d = ZST_DROPS.load(std::sync::atomic::Ordering::Relaxed);
        if d != len {
            rep.violations.push(format!("{}: {} zero-sized elements dropped, expected {}", desc, d, len));
        }
    }
    if live() != before {
        rep.violations.push(format!("{}: heap not balanced", desc));
    }
    rep.cells += 1;
}

fn box_case<U: Target>(mode: Mode, rep: &mut Report) {
    let desc = format!("box target={} mode={:?}", U::NAME, mode);
    cell_begin(&desc);
    reset_drops(1);
    let before = live();
    {
        let b = Box::new(Src::new(0));
        let r = catch_unwind(AssertUnwindSafe(|| {
            fallible_map_box::<Src, U, ()>(b, |s| match mode {
                Mode::Ok => Ok(U::from_src(s)),
                Mode::Err => {
                    drop(s);
                    Err(())
                }
                Mode::Panic => {
                    drop(s);
                    std::panic::panic_any(Injected)
                }
            })
        }));
        match (r, mode) {
            (Ok(Ok(out)), Mode::Ok) => {
                check_counts(&format!("{} (before dropping the result)", desc), 1, 0, rep);
                drop(out);
                check_counts(&format!("{} (after dropping the result)", desc), 1, 1, rep);
            }
            (Ok(Err(())), Mode::Err) | (Err(_), Mode::Panic) => {
                rep.injected += 1;
                check_counts(&desc, 1, 1, rep);
            }
            _ => rep.violations.push(format!("{}: unexpected outcome", desc)),
        }
    }
    if live() != before {
        rep.violations.push(format!("{}: heap not balanced: {:?} -> {:?} (leak or double free)", desc, before, live()));
    }
    rep.cells += 1;
}

fn box_zst(mode: Mode, rep: &mut Report) {
    let desc = format!("box target=zero-sized mode={:?}", mode);
    cell_begin(&desc);
    ZST_DROPS.store(0, std::sync::atomic::Ordering::Relaxed);
    let b = Box::new(Zst);
    let r = catch_unwind(AssertUnwindSafe(|| {
        fallible_map_box::<Zst, Zst2, ()>(b, |s| match mode {
            Mode::Ok => {
                std::mem::forget(s);
                Ok(Zst2)
            }
            Mode::Err => {
                drop(s);
                Err(())
            }
            Mode::Panic => {
                drop(s);
                std::panic::panic_any(Injected)
            }
        })
    }));
    if let Ok(Ok(out)) = r {
        drop(out);
    } else {
        rep.injected += 1;
    }
    let d = ZST_DROPS.load(std::sync::atomic::Ordering::Relaxed);
    if d != 1 {
        rep.violations.push(format!("{}: dropped {} times", desc, d));
    }
    rep.cells += 1;
}

fn main() {
    quiet_panics();
    let args: Vec<String> = std::env::args().collect();
    let get = |name: &str, def: usize| args.iter().position(|a| a == name).and_then(|i| args.get(i + 1)).and_then(|s| s.parse().ok()).unwrap_or(def);
    let max_len = get("--max-len", 10);
    let shard = get("--shard", 0);
    let nshards = get("--nshards", 1);
    let mut rep = Report { cells: 0, injected: 0, violations: vec![] };
    let mut cell = 0usize;
    let mut sample: Vec<String> = vec![];
    for len in 0..=max_len {
        // failing position: none, each index
        let positions: Vec<Option<usize>> = std::iter::once(None).chain((0..len).map(Some)).collect();
        for fail_at in positions {
            for mode in [Mode::Ok, Mode::Err, Mode::Panic] {
                if (fail_at.is_none()) != (mode == Mode::Ok) {
                    continue;
                }
                for spare in [0usize, 3] {
                    for target in 0..5 {
                        cell += 1;
                        if cell % nshards != shard {
                            continue;
                        }
                        match target {
                            0 => vec_case::<SameLayout>(len, spare, fail_at, mode, &mut rep),
                            1 => vec_case::<Aligned16>(len, spare, fail_at, mode, &mut rep),
                            2 => vec_case::<Bigger>(len, spare, fail_at, mode, &mut rep),
                            3 => vec_case::<Src>(len, spare, fail_at, mode, &mut rep),
                            _ => {
                                if spare == 0 {
                                    zst_case(len, fail_at, mode, &mut rep)
                                }
                            }
                        }
                        if sample.len() < 4 && fail_at.is_some() && len >= 2 {
                            sample.push(format!("len={} fail_at={:?} mode={:?} spare={} target#{}", len, fail_at, mode, spare, target));
                        }
                    }
                }
            }
        }
    }
    for mode in [Mode::Ok, Mode::Err, Mode::Panic] {
        cell += 1;
        if cell % nshards == shard {
            box_case::<SameLayout>(mode, &mut rep);
            box_case::<Aligned16>(mode, &mut rep);
            box_case::<Bigger>(mode, &mut rep);
            box_case::<Src>(mode, &mut rep);
            box_zst(mode, &mut rep);
        }
    }
    for v in &rep.violations {
        println!("VIOLATION {}", v);
    }
    for s in &sample {
        println!("SAMPLE {}", s);
    }
    println!("SUMMARY cells={} failures_injected={} violations={} max_len={}", rep.cells, rep.injected, rep.violations.len(), max_len);
    if !rep.violations.is_empty() {
        std::process::exit(1);
    }
}
