#!/bin/bash
# usage: confirm_seed.sh <out-dir-with-patch.diff+demo.rs> <label>
# Confirms in a scratch worktree of /repo HEAD: with the patch the suite stays green (550) and the demo fails; without it the demo passes.
set -u
D=$1; L=$2
WT=${WT:-/tmp/wt/confirm}
if [ ! -d $WT ]; then git -C /repo worktree add -q --detach $WT HEAD; fi
cd $WT && git checkout -q --detach $(git -C /repo rev-parse HEAD) && git checkout -q -- . && git clean -fdq -e target
R=$D/confirm.txt; : > $R
if ! git apply --check $D/patch.diff 2>>$R; then echo "$L: PATCH DOES NOT APPLY" | tee -a $R; exit 1; fi
git apply $D/patch.diff
# suite with the change (without the demo)
cargo nextest run --workspace --no-fail-fast --offline --test-threads 8 2>&1 | tail -3 > $D/suite_with.txt
grep -q "550 passed" $D/suite_with.txt && echo "$L: suite with change: 550 passed" | tee -a $R || { echo "$L: SUITE FAILS WITH CHANGE" | tee -a $R; cat $D/suite_with.txt >> $R; }
# demo with the change
cp $D/demo.rs tests/test/verif_demo.rs; echo "mod verif_demo;" >> tests/test/mod.rs
cargo nextest run --offline --no-fail-fast -E 'test(verif_demo)' 2>&1 | grep -E "^ +(FAIL|PASS|SIGABRT|SIGSEGV|TIMEOUT)|Summary|tests run" | tail -12 > $D/demo_with.txt
grep -Eq "(FAIL|SIGABRT|SIGSEGV) +\[" $D/demo_with.txt && echo "$L: demo with change: FAILS (expected)" | tee -a $R || { echo "$L: DEMO DOES NOT FAIL WITH CHANGE" | tee -a $R; cat $D/demo_with.txt >> $R; }
# demo without the change
git apply -R $D/patch.diff
cargo nextest run --offline --no-fail-fast -E 'test(verif_demo)' 2>&1 | grep -E "^ +(FAIL|PASS|SIGABRT|SIGSEGV|TIMEOUT)|Summary|tests run" | tail -12 > $D/demo_without.txt
grep -Eq "(FAIL|SIGABRT|SIGSEGV) +\[" $D/demo_without.txt && { echo "$L: DEMO FAILS WITHOUT CHANGE" | tee -a $R; cat $D/demo_without.txt >> $R; } || echo "$L: demo without change: passes" | tee -a $R
git checkout -q -- . ; git clean -fdq -e target
