#!/bin/bash
# usage: run_all.sh <tier> <seed> [props...]   — runs checks sequentially, prints one summary line each
T=$1; S=$2; shift 2
PROPS=${@:-C01 C02 C03 C04 C05 C06 C07 C08 C09 C10 C11 C12 C13 C14 C15 C16 C17 C18 C19 C20 C21 C22 C23 C24 C25 C26 C27 C28 C29}
for p in $PROPS; do
  out=$(VERIF_SEED=$S ./check $p $T 2>&1); rc=$?
  echo "rc=$rc $(echo "$out" | tail -1 | cut -c1-200)"
  if [ $rc -ne 0 ]; then echo "$out" | grep -E "what:|VIOLATION|INCONCLUSIVE" | head -4 | cut -c1-300; fi
done
