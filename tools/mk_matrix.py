#!/usr/bin/env python3
"""Prints the catch matrix of DESIGN.md 10.4 (markdown) from /verif/seeded/*/meta.json."""
import json, glob, os, re
rows = []
for d in sorted(glob.glob("/verif/seeded/*")):
    m = json.load(open(os.path.join(d, "meta.json")))
    what = re.sub(r"\s+", " ", m.get("breaks", "")).replace("|", "/")
    what = what[:150] + ("…" if len(what) > 150 else "")
    files = ", ".join(os.path.basename(f) for f in m.get("files_changed", []))[:48]
    caught = ", ".join(m["caught_by"]) or "**missed**"
    rows.append(f"| {m['seed_id']} | {files} | {what} | {caught} | {m.get('note', '')} |")
print("| id | file(s) | change (beginning of the author's summary; full text in `seeded/<id>/meta.json`) | caught by (`./check <id> quick` exits 1) | note |")
print("|---|---|---|---|---|")
print("\n".join(rows))
