#!/usr/bin/env python3
"""Prints the catch matrix (markdown) from /verif/seeded/*/meta.json."""
import json, glob, os
rows = []
for d in sorted(glob.glob("/verif/seeded/*")):
    m = json.load(open(os.path.join(d, "meta.json")))
    what = m.get("breaks", "").split(". ")[0][:170].replace("|", "/").replace("\n", " ")
    rows.append((m["seed_id"], m["property"], ", ".join(m.get("files_changed", []))[:60], ", ".join(m["caught_by"]) or "**missed**", m.get("dev_seeds", ""), m.get("note", "")))
print("| seeded change | property | file(s) | caught by (quick tier) | unexplained violations at seeds 1/2/3 (own check, dev bench) | note |")
print("|---|---|---|---|---|---|")
for r in rows:
    print("| " + " | ".join(r) + " |")
