#!/usr/bin/env python3
"""usage: keep_seed.py <src-dir> <seed-id> <property> <caught_by comma list or ''> [note]
Copies a confirmed seeded change (patch.diff, demo.rs, meta.json written by the sub-agent, confirm.txt written by
tools/confirm_seed.sh) to /verif/seeded/<seed-id>/ and writes its meta.json."""
import json, os, shutil, sys
src, sid, prop, caught = sys.argv[1], sys.argv[2], sys.argv[3], sys.argv[4]
note = sys.argv[5] if len(sys.argv) > 5 else ""
dst = f"/verif/seeded/{sid}"
os.makedirs(dst, exist_ok=True)
shutil.copy(f"{src}/patch.diff", f"{dst}/patch.diff")
shutil.copy(f"{src}/demo.rs", f"{dst}/demo.rs")
agent = {}
try:
    agent = json.load(open(f"{src}/meta.json"))
except Exception:
    pass
confirm = open(f"{src}/confirm.txt").read().strip().splitlines() if os.path.exists(f"{src}/confirm.txt") else []
demo_with = open(f"{src}/demo_with.txt").read() if os.path.exists(f"{src}/demo_with.txt") else ""
meta = {
    "seed_id": sid,
    "property": prop,
    "breaks": agent.get("summary", ""),
    "needs_to_manifest": agent.get("needs_to_manifest", ""),
    "files_changed": agent.get("files_changed", []),
    "written_by": "a fresh sub-agent that was given only the property text and a scratch worktree of /repo",
    "demo_install": "cp demo.rs <repo>/tests/test/verif_demo.rs && echo 'mod verif_demo;' >> <repo>/tests/test/mod.rs",
    "demo_run": "cargo nextest run --offline --no-fail-fast -E 'test(verif_demo)'",
    "confirmed_by_me": {
        "how": "tools/confirm_seed.sh in a scratch worktree of /repo HEAD: (1) patch applied: cargo nextest run --workspace = 550 passed; (2) demo installed: fails with the patch; (3) patch reverted: demo passes",
        "log": confirm,
        "demo_with_change_tail": demo_with[-600:],
    },
    "caught_by": [c for c in caught.split(",") if c],
    "how_checked": "tools/try_seed.sh <patch> quick <checks>: git -C /repo apply, ./check <id> quick, git -C /repo checkout -- . (and tools on the development bench at seeds 1-3, see DESIGN.md 10.4)",
    "note": note,
}
json.dump(meta, open(f"{dst}/meta.json", "w"), indent=1)
print("kept", dst, "caught_by", meta["caught_by"])
