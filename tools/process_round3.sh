#!/bin/bash
# usage: process_round3.sh <PROP> <seed-id>   — third round: confirm /tmp/wt/out_<PROP> (patch.diff, demo.rs, notes.txt), run the
# property's quick check against it in /repo (apply, check, revert), keep it under seeded/<seed-id>.
set -u
P=$1; SID=$2; D=/tmp/wt/out_$P
[ -f $D/patch.diff ] && [ -f $D/demo.rs ] || { echo "$P: deliverables missing"; exit 2; }
python3 - "$D" <<'PY'
import json, sys, re, subprocess
d = sys.argv[1]
notes = open(d + "/notes.txt").read() if __import__("os").path.exists(d + "/notes.txt") else ""
files = re.findall(r"^\+\+\+ b/(\S+)", open(d + "/patch.diff").read(), re.M)
json.dump({"summary": " ".join(notes.split()), "needs_to_manifest": "see summary (the author's notes.txt, verbatim)", "files_changed": files}, open(d + "/meta.json", "w"), indent=1)
PY
/verif/tools/confirm_seed.sh $D $SID
