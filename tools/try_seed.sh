#!/bin/bash
# usage: try_seed.sh <patch.diff> <tier> <PROP>...   — applies the patch to /repo, runs the checks, always reverts.
P=$1; T=$2; shift 2
cd /repo && git diff --quiet || { echo "/repo not clean"; exit 9; }
git apply "$P" || { echo "patch does not apply"; exit 8; }
cd /verif
# the checks rewrite evidence/<id>.json; what is committed there must describe the unchanged tree, so keep a copy
SAVE=$(mktemp -d); cp evidence/C*.json $SAVE/ 2>/dev/null
for prop in "$@"; do
  out=$(./check $prop $T 2>&1); rc=$?
  echo "[$prop rc=$rc] $(echo "$out" | grep -E "VIOLATION|INCONCLUSIVE" | head -2 | tr '\n' ' ' | cut -c1-200)"
  echo "$out" | grep "what:" | head -2 | cut -c1-300
done
git -C /repo checkout -- . ; git -C /repo clean -fdq
cp $SAVE/C*.json evidence/ 2>/dev/null; rm -rf $SAVE
