#!/usr/bin/env python3
"""usage: mk_seeded.py <battery-log>...   Rebuilds /verif/seeded/* from the sub-agents' output directories (/tmp/wt/out-*),
my confirmation logs and the given tools/try_seed.sh batch logs (later logs override earlier ones per seeded change)."""
import json, os, re, subprocess, sys, collections
res = collections.OrderedDict()
for path in sys.argv[1:]:
    cur = None
    for line in open(path, errors="replace"):
        m = re.match(r"== (\S+)", line)
        if m:
            cur = m.group(1); res[cur] = collections.OrderedDict(); continue
        m = re.match(r"\[(C\d+) rc=(\d+)\]", line)
        if m and cur:
            res[cur][m.group(1)] = int(m.group(2))
dev = {}
for path in ["/tmp/dev/battery_final.log", "/tmp/dev/battery_partial.log"]:
    if os.path.exists(path):
        for line in open(path):
            m = re.match(r"(\S+) (C\d+): (.*)", line.strip())
            if m and m.group(1) not in dev:
                dev[m.group(1)] = m.group(3)
notes = {
 "C02-a": "same source change as C01-a (found independently by the agents for C01, C02, C04, C05, C10)",
 "C04-a": "same source change as C01-a", "C05-a": "same source change as C01-a", "C10-a": "same source change as C01-a",
 "C13-c": "same source change as C01-a (second-round agent for C13)", "C13-d": "same source change as C01-b (second-round agent for C13)",
 "C09-c": "missed: the statement exempts the recursive solver's overflow-depth panic, which is what this change turns a truncated (Ambiguous) search into; the workload also has no clause bodies with negation over growing types",
}
ids = []
for p in range(1, 30):
    pid = f"C{p:02d}"
    for v, src, name in [("a", f"/tmp/wt/out-{pid}/a", f"{pid}-a"), ("b", f"/tmp/wt/out-{pid}/b", f"{pid}-b"), ("a", f"/tmp/wt/out-W2-{pid}/a", f"{pid}-c"), ("b", f"/tmp/wt/out-W2-{pid}/b", f"{pid}-d")]:
        if not os.path.exists(f"{src}/patch.diff"):
            continue
        logname = name if name[-1] in "ab" else f"W2-{pid}-{'a' if name[-1]=='c' else 'b'}"
        r = res.get(logname, {})
        caught = ",".join(k for k, rc in r.items() if rc == 1)
        subprocess.check_call(["python3", "/verif/tools/keep_seed.py", src, name, pid, caught, notes.get(name, "")], stdout=subprocess.DEVNULL)
        m = json.load(open(f"/verif/seeded/{name}/meta.json"))
        m["checks_run"] = {k: {0: "silent", 1: "VIOLATION", 2: "inconclusive"}.get(rc, str(rc)) for k, rc in r.items()}
        m["dev_seeds"] = dev.get(logname, "")
        json.dump(m, open(f"/verif/seeded/{name}/meta.json", "w"), indent=1)
        ids.append((name, caught or "-"))
print(len(ids), "seeded changes;", sum(1 for _, c in ids if c == "-"), "without a catching check:", [n for n, c in ids if c == "-"])
