#!/usr/bin/env python3
"""usage: battery_report.py <try_log>...  — parses tools/try_seed.sh batch logs ("== Cxx-v" / "[Cyy rc=N] ..." lines)
and prints, per seeded change, which checks fired (rc=1), stayed silent (rc=0) or were inconclusive (rc=2)."""
import re, sys, collections
res = collections.OrderedDict()
for path in sys.argv[1:]:
    cur = None
    for line in open(path, errors="replace"):
        m = re.match(r"== (\S+)", line)
        if m:
            cur = m.group(1); res.setdefault(cur, collections.OrderedDict()); continue
        m = re.match(r"\[(C\d+) rc=(\d+)\]", line)
        if m and cur:
            res[cur][m.group(1)] = int(m.group(2))
for k, v in res.items():
    caught = [p for p, rc in v.items() if rc == 1]
    silent = [p for p, rc in v.items() if rc == 0]
    other = [f"{p}(rc={rc})" for p, rc in v.items() if rc not in (0, 1)]
    print(f"{k}\tcaught_by={','.join(caught) or '-'}\tsilent={','.join(silent) or '-'}\t{' '.join(other)}")
