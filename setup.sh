#!/bin/sh
# Builds the verification harness offline from files on disk only.
set -e
cd "$(dirname "$0")"
export CARGO_NET_OFFLINE=true
unset RUSTFLAGS
cp /repo/Cargo.lock harness/Cargo.lock 2>/dev/null || true
(cd harness && cargo build --release --offline)
if [ -d memsafe/src ] && [ -f memsafe/Cargo.toml ]; then
  (cd memsafe && cp /repo/Cargo.lock Cargo.lock 2>/dev/null; cargo build --release --offline --features pubroute)
fi
mkdir -p evidence/replay
echo "setup ok"
